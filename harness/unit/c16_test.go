package unit

// C16 — NetworkTransport delivers RPCs faithfully and pipelines in order.
// Two real NetworkTransports over an in-memory StreamLayer (net.Pipe based,
// with a fault knob) inside a synctest bubble; generated messages of every
// RPC type; oracle: field-by-field round trip, pipeline order and pairing,
// own-response-or-error after a broken exchange.

import (
	"bytes"
	"errors"
	"fmt"
	"io"
	"net"
	"os"
	"reflect"
	"sync"
	"testing"
	"time"

	"github.com/hashicorp/go-hclog"
	"github.com/hashicorp/raft"
	"pgregory.net/rapid"

	"verif/harness/rep"
	"verif/harness/sim"
)

type memNet struct {
	mu     sync.Mutex
	layers map[string]*memLayer
	// fault knob: the next dialed connection breaks after this many bytes
	// written by the dialer (0 = no fault)
	breakAfter int
}

type memLayer struct {
	n      *memNet
	addr   string
	accept chan net.Conn
	closed chan struct{}
	once   sync.Once
}

type memAddr string

func (a memAddr) Network() string { return "mem" }
func (a memAddr) String() string  { return string(a) }

func (n *memNet) layer(addr string) *memLayer {
	l := &memLayer{n: n, addr: addr, accept: make(chan net.Conn, 16), closed: make(chan struct{})}
	n.mu.Lock()
	n.layers[addr] = l
	n.mu.Unlock()
	return l
}

func (l *memLayer) Accept() (net.Conn, error) {
	select {
	case c := <-l.accept:
		return c, nil
	case <-l.closed:
		return nil, errors.New("listener closed")
	}
}
func (l *memLayer) Close() error   { l.once.Do(func() { close(l.closed) }); return nil }
func (l *memLayer) Addr() net.Addr { return memAddr(l.addr) }
func (l *memLayer) Dial(address raft.ServerAddress, timeout time.Duration) (net.Conn, error) {
	l.n.mu.Lock()
	t := l.n.layers[string(address)]
	k := l.n.breakAfter
	l.n.breakAfter = 0
	l.n.mu.Unlock()
	if t == nil {
		return nil, fmt.Errorf("no route to %s", address)
	}
	c1, c2 := bufferedPair()
	var dialer net.Conn = c1
	if k > 0 {
		dialer = &breakConn{Conn: c1, other: c2, left: k}
	}
	select {
	case t.accept <- c2:
		return dialer, nil
	case <-t.closed:
		return nil, errors.New("connection refused")
	case <-time.After(timeout):
		return nil, errors.New("dial timeout")
	}
}

// bufferedPair is a connection with send buffers, as a TCP connection has: a
// writer is not held up by a peer that is not reading (net.Pipe alone is
// synchronous). Each direction is pumped through an unbounded queue; deadlines
// of the two endpoints work as net.Pipe's do.
func bufferedPair() (net.Conn, net.Conn) {
	a1, a2 := net.Pipe()
	b1, b2 := net.Pipe()
	pump := func(from, to net.Conn) {
		var mu sync.Mutex
		var q [][]byte
		closed := false
		wake := make(chan struct{}, 1)
		go func() {
			buf := make([]byte, 32*1024)
			for {
				n, err := from.Read(buf)
				mu.Lock()
				if n > 0 {
					q = append(q, append([]byte(nil), buf[:n]...))
				}
				if err != nil {
					closed = true
				}
				mu.Unlock()
				select {
				case wake <- struct{}{}:
				default:
				}
				if err != nil {
					return
				}
			}
		}()
		go func() {
			for range wake {
				for {
					mu.Lock()
					var chunk []byte
					if len(q) > 0 {
						chunk, q = q[0], q[1:]
					}
					done := closed && len(q) == 0 && chunk == nil
					mu.Unlock()
					if chunk == nil {
						if done {
							_ = to.Close()
							return
						}
						break
					}
					if _, err := to.Write(chunk); err != nil {
						_ = from.Close()
						return
					}
				}
			}
		}()
	}
	pump(a2, b1)
	pump(b1, a2)
	return a1, b2
}

type breakConn struct {
	net.Conn
	other net.Conn
	left  int
}

func (b *breakConn) Write(p []byte) (int, error) {
	if b.left <= 0 {
		return 0, io.ErrClosedPipe
	}
	if len(p) > b.left {
		n, _ := b.Conn.Write(p[:b.left])
		b.left = 0
		_ = b.Conn.Close()
		_ = b.other.Close()
		return n, io.ErrClosedPipe
	}
	b.left -= len(p)
	return b.Conn.Write(p)
}

// ---------------------------------------------------------------------------
// generators

func genBytes(t *rapid.T, label string, max int) []byte {
	switch rapid.IntRange(0, 3).Draw(t, label+"Kind") {
	case 0:
		return nil
	case 1:
		return []byte{}
	}
	return rapid.SliceOfN(rapid.Byte(), 1, max).Draw(t, label)
}

func genHeader(t *rapid.T) raft.RPCHeader {
	return raft.RPCHeader{ProtocolVersion: raft.ProtocolVersion(rapid.IntRange(0, 3).Draw(t, "pv")), ID: genBytes(t, "hid", 12), Addr: genBytes(t, "haddr", 12)}
}

func genTime(t *rapid.T) time.Time {
	switch rapid.IntRange(0, 3).Draw(t, "timeKind") {
	case 0:
		return time.Time{}
	case 1:
		return time.Unix(rapid.Int64Range(0, 1<<33).Draw(t, "sec"), rapid.Int64Range(0, 999999999).Draw(t, "nsec")).UTC()
	case 2:
		return time.Unix(rapid.Int64Range(0, 1<<33).Draw(t, "sec"), 0).In(time.FixedZone("x", rapid.IntRange(-12, 12).Draw(t, "zone")*3600))
	}
	return time.Unix(rapid.Int64Range(-1000, 1000).Draw(t, "sec"), rapid.Int64Range(0, 999999999).Draw(t, "nsec"))
}

func genLog(t *rapid.T) *raft.Log {
	return &raft.Log{Index: rapid.Uint64().Draw(t, "idx"), Term: rapid.Uint64().Draw(t, "term"), Type: raft.LogType(rapid.IntRange(0, 5).Draw(t, "type")),
		Data: genBytes(t, "data", rapid.SampledFrom([]int{4, 64, 5000}).Draw(t, "dataMax")), Extensions: genBytes(t, "ext", 16), AppendedAt: genTime(t)}
}

func genAE(t *rapid.T) *raft.AppendEntriesRequest {
	a := &raft.AppendEntriesRequest{RPCHeader: genHeader(t), Term: rapid.Uint64().Draw(t, "term"), Leader: genBytes(t, "leader", 12),
		PrevLogEntry: rapid.Uint64().Draw(t, "prev"), PrevLogTerm: rapid.Uint64().Draw(t, "prevTerm"), LeaderCommitIndex: rapid.Uint64().Draw(t, "commit")}
	n := rapid.IntRange(0, 5).Draw(t, "nEntries")
	for i := 0; i < n; i++ {
		a.Entries = append(a.Entries, genLog(t))
	}
	return a
}

func eqBytes(a, b []byte) bool { return bytes.Equal(a, b) } // nil == empty

func eqHeader(a, b raft.RPCHeader) bool {
	return a.ProtocolVersion == b.ProtocolVersion && eqBytes(a.ID, b.ID) && eqBytes(a.Addr, b.Addr)
}

func eqLog(a, b *raft.Log) bool {
	return a.Index == b.Index && a.Term == b.Term && a.Type == b.Type && eqBytes(a.Data, b.Data) && eqBytes(a.Extensions, b.Extensions) && a.AppendedAt.Equal(b.AppendedAt)
}

func eqAE(a, b *raft.AppendEntriesRequest) string {
	if !eqHeader(a.RPCHeader, b.RPCHeader) || a.Term != b.Term || !eqBytes(a.Leader, b.Leader) || a.PrevLogEntry != b.PrevLogEntry || a.PrevLogTerm != b.PrevLogTerm || a.LeaderCommitIndex != b.LeaderCommitIndex {
		return fmt.Sprintf("scalar fields differ: sent %+v received %+v", *a, *b)
	}
	if len(a.Entries) != len(b.Entries) {
		return fmt.Sprintf("entries: sent %d received %d", len(a.Entries), len(b.Entries))
	}
	for i := range a.Entries {
		if !eqLog(a.Entries[i], b.Entries[i]) {
			return fmt.Sprintf("entry %d: sent %+v received %+v", i, *a.Entries[i], *b.Entries[i])
		}
	}
	return ""
}

// ---------------------------------------------------------------------------

type c16Env struct {
	net    *memNet
	t1, t2 *raft.NetworkTransport
	// handler script: what to answer, keyed by arrival order
	mu       sync.Mutex
	received []any
	bodies   [][]byte
	answer   func(n int, cmd any) (any, error, time.Duration)
	// readLimit: how many bytes of a streamed body the handler reads (-1 = all)
	readLimit int
	stop      chan struct{}
}

func newC16Env(maxInFlight int, newTime bool, timeout time.Duration, receiverOther ...bool) *c16Env {
	e := &c16Env{net: &memNet{layers: map[string]*memLayer{}}, stop: make(chan struct{}), readLimit: -1}
	mk := func(addr string, nt bool) *raft.NetworkTransport {
		return raft.NewNetworkTransportWithConfig(&raft.NetworkTransportConfig{Stream: e.net.layer(addr), MaxPool: 2, MaxRPCsInFlight: maxInFlight, Timeout: timeout,
			Logger: hclog.NewNullLogger(), MsgpackUseNewTimeFormat: nt})
	}
	// MsgpackUseNewTimeFormat is a sender-side option ("decoding is not
	// affected"): the two ends of a connection may be configured differently
	// while a cluster is being upgraded
	recv := newTime
	if len(receiverOther) > 0 && receiverOther[0] {
		recv = !newTime
	}
	e.t1, e.t2 = mk("n1", newTime), mk("n2", recv)
	go func() {
		n := 0
		for {
			select {
			case rpc := <-e.t2.Consumer():
				var body []byte
				if rpc.Reader != nil {
					e.mu.Lock()
					lim := e.readLimit
					e.mu.Unlock()
					if lim >= 0 {
						body, _ = io.ReadAll(io.LimitReader(rpc.Reader, int64(lim)))
					} else {
						body, _ = io.ReadAll(rpc.Reader)
					}
				}
				e.mu.Lock()
				e.received = append(e.received, rpc.Command)
				e.bodies = append(e.bodies, body)
				resp, err, delay := e.answer(n, rpc.Command)
				n++
				e.mu.Unlock()
				if delay > 0 {
					time.Sleep(delay)
				}
				rpc.Respond(resp, err)
			case <-e.stop:
				return
			}
		}
	}()
	return e
}

func (e *c16Env) close() {
	close(e.stop)
	_ = e.t1.Close()
	_ = e.t2.Close()
}

func c16Fail(r *rep.Report, sig, detail string) {
	r.Violate("C16", "R", "C16/"+sig, detail, "")
	r.Freeze()
}

// c16Call is one generated RPC: the request the caller sends and the response
// (and optionally an error) the handler produces.
type c16Call struct {
	Kind       string                        `json:"kind"`
	HandlerErr bool                          `json:"handler_error"`
	AE         *raft.AppendEntriesRequest    `json:"ae,omitempty"`
	AEResp     *raft.AppendEntriesResponse   `json:"ae_resp,omitempty"`
	RV         *raft.RequestVoteRequest      `json:"rv,omitempty"`
	RVResp     *raft.RequestVoteResponse     `json:"rv_resp,omitempty"`
	PV         *raft.RequestPreVoteRequest   `json:"pv,omitempty"`
	PVResp     *raft.RequestPreVoteResponse  `json:"pv_resp,omitempty"`
	TN         *raft.TimeoutNowRequest       `json:"tn,omitempty"`
	TNResp     *raft.TimeoutNowResponse      `json:"tn_resp,omitempty"`
	IS         *raft.InstallSnapshotRequest  `json:"is,omitempty"`
	ISResp     *raft.InstallSnapshotResponse `json:"is_resp,omitempty"`
	// ISRead: how much of the streamed snapshot body the handler reads before it
	// answers (-1 or absent = all of it; a handler that fails early reads less)
	ISRead *int `json:"is_handler_reads,omitempty"`
}

// c16Seq is a sequence of calls made one after the other over one pair of
// transports (so pooled connections are reused).
type c16Seq struct {
	Property string    `json:"property"`
	Engine   string    `json:"engine"`
	Test     string    `json:"test"`
	Mode     string    `json:"mode"`
	NewTime  bool      `json:"new_time_format"`
	Mixed    bool      `json:"receiver_uses_the_other_time_format,omitempty"`
	Reuse    bool      `json:"caller_reuses_its_response_structs,omitempty"` // as raft's replication loops do (one resp variable across calls)
	Calls    []c16Call `json:"calls"`
	Detail   string    `json:"detail,omitempty"`
}

func genC16Call(rt *rapid.T) c16Call {
	c := c16Call{Kind: rapid.SampledFrom([]string{"AE", "AE", "RV", "PV", "IS", "TN"}).Draw(rt, "kind"), HandlerErr: rapid.IntRange(0, 4).Draw(rt, "handlerErr") == 0}
	switch c.Kind {
	case "AE":
		c.AE = genAE(rt)
		c.AEResp = &raft.AppendEntriesResponse{RPCHeader: genHeader(rt), Term: rapid.Uint64().Draw(rt, "rterm"), LastLog: rapid.Uint64().Draw(rt, "rlast"), Success: rapid.Bool().Draw(rt, "rok"), NoRetryBackoff: rapid.Bool().Draw(rt, "rnb")}
	case "RV":
		c.RV = &raft.RequestVoteRequest{RPCHeader: genHeader(rt), Term: rapid.Uint64().Draw(rt, "term"), Candidate: genBytes(rt, "cand", 12), LastLogIndex: rapid.Uint64().Draw(rt, "li"), LastLogTerm: rapid.Uint64().Draw(rt, "lt"), LeadershipTransfer: rapid.Bool().Draw(rt, "lt2")}
		c.RVResp = &raft.RequestVoteResponse{RPCHeader: genHeader(rt), Term: rapid.Uint64().Draw(rt, "rterm"), Peers: genBytes(rt, "peers", 12), Granted: rapid.Bool().Draw(rt, "granted")}
	case "PV":
		c.PV = &raft.RequestPreVoteRequest{RPCHeader: genHeader(rt), Term: rapid.Uint64().Draw(rt, "term"), LastLogIndex: rapid.Uint64().Draw(rt, "li"), LastLogTerm: rapid.Uint64().Draw(rt, "lt")}
		c.PVResp = &raft.RequestPreVoteResponse{RPCHeader: genHeader(rt), Term: rapid.Uint64().Draw(rt, "rterm"), Granted: rapid.Bool().Draw(rt, "granted")}
	case "TN":
		c.TN = &raft.TimeoutNowRequest{RPCHeader: genHeader(rt)}
		c.TNResp = &raft.TimeoutNowResponse{RPCHeader: genHeader(rt)}
	case "IS":
		size := rapid.SampledFrom([]int{0, 1, 100, 4096, 70000, 300000}).Draw(rt, "size")
		c.IS = &raft.InstallSnapshotRequest{RPCHeader: genHeader(rt), SnapshotVersion: raft.SnapshotVersion(rapid.IntRange(0, 1).Draw(rt, "sv")), Term: rapid.Uint64().Draw(rt, "term"), Leader: genBytes(rt, "leader", 12),
			LastLogIndex: rapid.Uint64().Draw(rt, "li"), LastLogTerm: rapid.Uint64().Draw(rt, "lt"), Peers: genBytes(rt, "peers", 12), Configuration: genBytes(rt, "conf", 40), ConfigurationIndex: rapid.Uint64().Draw(rt, "ci"), Size: int64(size)}
		c.ISResp = &raft.InstallSnapshotResponse{RPCHeader: genHeader(rt), Term: rapid.Uint64().Draw(rt, "rterm"), Success: rapid.Bool().Draw(rt, "ok")}
		if size > 0 && rapid.IntRange(0, 2).Draw(rt, "partialRead") == 0 {
			n := rapid.IntRange(0, size-1).Draw(rt, "handlerReads")
			c.ISRead = &n
		}
	}
	return c
}

func (c c16Call) nonEmpty() bool {
	switch c.Kind {
	case "AE":
		return len(c.AE.Entries) > 0
	case "RV":
		return len(c.RV.Candidate) > 0
	case "PV":
		return len(c.PV.RPCHeader.ID) > 0
	case "TN":
		return len(c.TN.RPCHeader.ID) > 0
	}
	return c.IS.Size > 0
}

// c16RunSeq makes the calls of seq one after the other and judges each one:
// the handler must receive exactly the request sent, the caller exactly the
// response (or the error) the handler produced. Runs inside a bubble.
func c16RunSeq(seq *c16Seq) string {
	e := newC16Env(2, seq.NewTime, time.Second, seq.Mixed)
	defer e.close()
	var aeGot raft.AppendEntriesResponse
	var rvGot raft.RequestVoteResponse
	var pvGot raft.RequestPreVoteResponse
	var tnGot raft.TimeoutNowResponse
	var isGot raft.InstallSnapshotResponse
	for i, c := range seq.Calls {
		c := c
		if !seq.Reuse {
			aeGot, rvGot, pvGot, tnGot, isGot = raft.AppendEntriesResponse{}, raft.RequestVoteResponse{}, raft.RequestPreVoteResponse{}, raft.TimeoutNowResponse{}, raft.InstallSnapshotResponse{}
		}
		var want any
		switch c.Kind {
		case "AE":
			want = c.AEResp
		case "RV":
			want = c.RVResp
		case "PV":
			want = c.PVResp
		case "TN":
			want = c.TNResp
		case "IS":
			want = c.ISResp
		}
		e.mu.Lock()
		e.readLimit = -1
		if c.ISRead != nil {
			e.readLimit = *c.ISRead
		}
		e.answer = func(int, any) (any, error, time.Duration) {
			if c.HandlerErr {
				return want, errors.New("handler says no"), 0
			}
			return want, nil, 0
		}
		e.mu.Unlock()
		var err error
		var cmpReq func(any) string
		var cmpResp func() string
		switch c.Kind {
		case "AE":
			got := &aeGot
			err = e.t1.AppendEntries("n2", "n2", c.AE, got)
			cmpReq = func(cmd any) string {
				b, ok := cmd.(*raft.AppendEntriesRequest)
				if !ok {
					return fmt.Sprintf("handler received %T", cmd)
				}
				return eqAE(c.AE, b)
			}
			cmpResp = func() string {
				w := c.AEResp
				if !eqHeader(got.RPCHeader, w.RPCHeader) || got.Term != w.Term || got.LastLog != w.LastLog || got.Success != w.Success || got.NoRetryBackoff != w.NoRetryBackoff {
					return fmt.Sprintf("response: handler produced %+v caller received %+v", *w, *got)
				}
				return ""
			}
		case "RV":
			got := &rvGot
			req := c.RV
			err = e.t1.RequestVote("n2", "n2", req, got)
			cmpReq = func(cmd any) string {
				b, ok := cmd.(*raft.RequestVoteRequest)
				if !ok || !eqHeader(req.RPCHeader, b.RPCHeader) || req.Term != b.Term || !eqBytes(req.Candidate, b.Candidate) || req.LastLogIndex != b.LastLogIndex || req.LastLogTerm != b.LastLogTerm || req.LeadershipTransfer != b.LeadershipTransfer {
					return fmt.Sprintf("sent %+v received %+v", *req, cmd)
				}
				return ""
			}
			cmpResp = func() string {
				w := c.RVResp
				if !eqHeader(got.RPCHeader, w.RPCHeader) || got.Term != w.Term || !eqBytes(got.Peers, w.Peers) || got.Granted != w.Granted {
					return fmt.Sprintf("response: handler produced %+v caller received %+v", *w, *got)
				}
				return ""
			}
		case "PV":
			got := &pvGot
			req := c.PV
			err = e.t1.RequestPreVote("n2", "n2", req, got)
			cmpReq = func(cmd any) string {
				b, ok := cmd.(*raft.RequestPreVoteRequest)
				if !ok || !eqHeader(req.RPCHeader, b.RPCHeader) || req.Term != b.Term || req.LastLogIndex != b.LastLogIndex || req.LastLogTerm != b.LastLogTerm {
					return fmt.Sprintf("sent %+v received %+v", *req, cmd)
				}
				return ""
			}
			cmpResp = func() string {
				w := c.PVResp
				if !eqHeader(got.RPCHeader, w.RPCHeader) || got.Term != w.Term || got.Granted != w.Granted {
					return fmt.Sprintf("response: handler produced %+v caller received %+v", *w, *got)
				}
				return ""
			}
		case "TN":
			got := &tnGot
			req := c.TN
			err = e.t1.TimeoutNow("n2", "n2", req, got)
			cmpReq = func(cmd any) string {
				b, ok := cmd.(*raft.TimeoutNowRequest)
				if !ok || !eqHeader(req.RPCHeader, b.RPCHeader) {
					return fmt.Sprintf("sent %+v received %+v", *req, cmd)
				}
				return ""
			}
			cmpResp = func() string {
				if !eqHeader(got.RPCHeader, c.TNResp.RPCHeader) {
					return fmt.Sprintf("response: handler produced %+v caller received %+v", *c.TNResp, *got)
				}
				return ""
			}
		case "IS":
			got := &isGot
			req := c.IS
			body := c15Content(int(req.Size)+1, int(req.Size))
			err = e.t1.InstallSnapshot("n2", "n2", req, got, bytes.NewReader(body))
			cmpReq = func(cmd any) string {
				b, ok := cmd.(*raft.InstallSnapshotRequest)
				if !ok || !eqHeader(req.RPCHeader, b.RPCHeader) || req.SnapshotVersion != b.SnapshotVersion || req.Term != b.Term || !eqBytes(req.Leader, b.Leader) || req.LastLogIndex != b.LastLogIndex ||
					req.LastLogTerm != b.LastLogTerm || !eqBytes(req.Peers, b.Peers) || !eqBytes(req.Configuration, b.Configuration) || req.ConfigurationIndex != b.ConfigurationIndex || req.Size != b.Size {
					return fmt.Sprintf("sent %+v received %+v", *req, cmd)
				}
				e.mu.Lock()
				defer e.mu.Unlock()
				if c.ISRead != nil {
					if !bytes.Equal(e.bodies[i], body[:*c.ISRead]) {
						return fmt.Sprintf("snapshot body: handler read %d bytes that are not the first %d bytes sent", len(e.bodies[i]), *c.ISRead)
					}
					return ""
				}
				if !bytes.Equal(e.bodies[i], body) {
					return fmt.Sprintf("snapshot body: sent %d bytes, handler read %d bytes (equal=%v)", len(body), len(e.bodies[i]), bytes.Equal(e.bodies[i], body))
				}
				return ""
			}
			cmpResp = func() string {
				w := c.ISResp
				if !eqHeader(got.RPCHeader, w.RPCHeader) || got.Term != w.Term || got.Success != w.Success {
					return fmt.Sprintf("response: handler produced %+v caller received %+v", *w, *got)
				}
				return ""
			}
		}
		if c.Kind == "IS" && c.ISRead != nil && err != nil && err.Error() != "handler says no" {
			// the handler answered without draining the streamed body: the receiving
			// side drops the connection, and the sender, still streaming, may find it
			// closed under it (as a TCP sender would). An error is one of the two
			// permitted outcomes; what the handler was handed is still judged.
			e.mu.Lock()
			n := len(e.received)
			var cmd any
			if n > i {
				cmd = e.received[i]
			}
			e.mu.Unlock()
			if n != i+1 {
				return fmt.Sprintf("call %d (%s): handler received %d requests after %d calls (call error: %v)", i, c.Kind, n, i+1, err)
			}
			if d := cmpReq(cmd); d != "" {
				return fmt.Sprintf("call %d (%s): request: %s", i, c.Kind, d)
			}
			continue
		}
		if d := c16Judge(e, i, err, c.HandlerErr, cmpReq, cmpResp); d != "" {
			return fmt.Sprintf("call %d (%s): %s", i, c.Kind, d)
		}
	}
	return ""
}

// TestC16RoundTrip: sequences of every RPC type with generated values over one
// pair of transports; some handlers answer with an error.
func TestC16RoundTrip(t *testing.T) {
	r := rep.New("C16", "roundtrip")
	r.Extra("test", "TestC16RoundTrip")
	defer r.Flush()
	rapid.Check(t, func(rt *rapid.T) {
		if r.Frozen() {
			return
		}
		seq := &c16Seq{Property: "C16", Engine: "unit", Test: "TestC16Replay", Mode: "sequence", NewTime: rapid.Bool().Draw(rt, "newTimeFormat"), Mixed: rapid.IntRange(0, 2).Draw(rt, "mixedTimeFormat") == 0, Reuse: rapid.Bool().Draw(rt, "reuseResponseStructs")}
		n := rapid.IntRange(1, 4).Draw(rt, "calls")
		nonEmpty, errThenMore := false, false
		var kinds []string
		for i := 0; i < n; i++ {
			c := genC16Call(rt)
			seq.Calls = append(seq.Calls, c)
			nonEmpty = nonEmpty || c.nonEmpty()
			if c.HandlerErr && i < n-1 {
				errThenMore = true
			}
			kinds = append(kinds, c.Kind)
		}
		var detail string
		sim.Bubble(t, func() { detail = c16RunSeq(seq) })
		r.Case(nonEmpty, rep.Hash(fmt.Sprint(kinds), seq.NewTime, seq.Mixed, errThenMore, rt), kinds[0], map[bool]string{true: "handler-error-then-more-calls", false: "no-handler-error-before-a-call"}[errThenMore], map[bool]string{true: "ends-configured-with-different-time-formats", false: "ends-configured-alike"}[seq.Mixed], map[bool]string{true: "caller-reuses-its-response-structs", false: "fresh-response-struct-per-call"}[seq.Reuse])
		if nonEmpty && r.WantSample() {
			r.Sample(map[string]any{"rpcs": kinds, "new_time_format": seq.NewTime, "handler_error_then_more_calls": errThenMore})
		}
		if detail != "" {
			seq.Detail = detail
			path := fmt.Sprintf("%s/C16-roundtrip-%d.json", rep.ReplayDir(), os.Getpid())
			writeJSON(path, seq)
			r.Violate("C16", "R", "C16/R1/round-trip-differs", detail, path)
			r.Freeze()
			rt.Fatalf("%s", detail)
		}
	})
}

func c16Judge(e *c16Env, i int, err error, handlerErr bool, cmpReq func(any) string, cmpResp func() string) string {
	e.mu.Lock()
	n := len(e.received)
	var cmd any
	if n > i {
		cmd = e.received[i]
	}
	e.mu.Unlock()
	if n != i+1 {
		return fmt.Sprintf("handler received %d requests after %d calls (call error: %v)", n, i+1, err)
	}
	if d := cmpReq(cmd); d != "" {
		return "request: " + d
	}
	if handlerErr {
		if err == nil || err.Error() != "handler says no" {
			return fmt.Sprintf("handler error not delivered: %v", err)
		}
		return ""
	}
	if err != nil {
		return "call failed: " + err.Error()
	}
	return cmpResp()
}

// TestC16Pipeline: order and pairing on a pipeline, and own-response-or-error
// on the pooled connections after a broken exchange.
// c16Pipe is one generated pipeline scenario.
type c16Pipe struct {
	Property    string   `json:"property"`
	Engine      string   `json:"engine"`
	Test        string   `json:"test"`
	Mode        string   `json:"mode"`
	MaxInFlight int      `json:"max_in_flight"`
	Depth       int      `json:"depth"`
	Delays      []int    `json:"handler_delays_ms"`
	BreakAt     int      `json:"break_after_bytes"`
	CallsAfter  int      `json:"calls_after"`
	Refuse      []uint64 `json:"handler_refuses_terms"`    // requests answered with a response and an error
	IdleBefore  []int    `json:"idle_before_ms,omitempty"` // per request: the pipeline sits idle this long before the request is sent (longer than the transport time-out: 2 s)
	StallAfter  int      `json:"consumer_stalls_after,omitempty"` // the consumer stops draining after this many futures (0: never) ...
	StallMs     int      `json:"consumer_stall_ms,omitempty"`     // ... for this long (longer than the transport time-out), while the sender keeps sending, also after an error
	Detail      string   `json:"detail,omitempty"`
	refuse      map[uint64]bool
}

// c16RunPipeline runs inside a bubble.
func c16RunPipeline(pc *c16Pipe) (detail string) {
	pc.refuse = map[uint64]bool{}
	for _, t := range pc.Refuse {
		pc.refuse[t] = true
	}
	e := newC16Env(pc.MaxInFlight, false, 2*time.Second) // net.Pipe has no buffer: a writer waits for the (sequential) handler, keep time-outs above the summed delays
	defer e.close()
	e.answer = func(n int, cmd any) (any, error, time.Duration) {
		a := cmd.(*raft.AppendEntriesRequest)
		d := time.Duration(0)
		if int(a.PrevLogEntry) < len(pc.Delays) {
			d = time.Duration(pc.Delays[a.PrevLogEntry]) * time.Millisecond
		}
		var herr error
		if pc.refuse[a.Term] {
			herr = fmt.Errorf("handler refuses %d", a.Term)
		}
		return &raft.AppendEntriesResponse{Term: a.Term, LastLog: a.Term*7 + 3, Success: true}, herr, d
	}
	e.net.mu.Lock()
	e.net.breakAfter = pc.BreakAt
	e.net.mu.Unlock()
	p, err := e.t1.AppendEntriesPipeline("n2", "n2")
	if err != nil {
		detail = "cannot open pipeline: " + err.Error()
		return detail
	}
	// a pipeline must be drained concurrently (as raft's pipelineDecode does)
	var mu sync.Mutex
	var futs []raft.AppendFuture
	var completed []raft.AppendFuture
	stopDrain := make(chan struct{})
	drained := make(chan struct{})
	go func() {
		defer close(drained)
		for {
			select {
			case f := <-p.Consumer():
				mu.Lock()
				completed = append(completed, f)
				n := len(completed)
				mu.Unlock()
				if pc.StallAfter > 0 && n == pc.StallAfter {
					time.Sleep(time.Duration(pc.StallMs) * time.Millisecond) // a consumer that is busy elsewhere for a while
				}
			case <-stopDrain:
				return
			}
		}
	}()
	sent := 0
	for i := 0; i < pc.Depth; i++ {
		if i < len(pc.IdleBefore) && pc.IdleBefore[i] > 0 {
			// everything sent so far is answered before the idle period begins
			for w := 0; w < 20000; w++ {
				mu.Lock()
				n := len(completed)
				mu.Unlock()
				if n >= sent {
					break
				}
				time.Sleep(time.Millisecond)
			}
			time.Sleep(time.Duration(pc.IdleBefore[i]) * time.Millisecond)
		}
		req := &raft.AppendEntriesRequest{Term: uint64(1000 + i), PrevLogEntry: uint64(i), Entries: []*raft.Log{{Index: uint64(i), Data: c15Content(i, 30)}}}
		f, err := p.AppendEntries(req, &raft.AppendEntriesResponse{})
		if err != nil {
			if pc.StallAfter > 0 {
				continue // this caller keeps using the pipeline: whatever completes without error must still be its own answer
			}
			break
		}
		mu.Lock()
		futs = append(futs, f)
		mu.Unlock()
		sent++
	}
	// wait until everything sent has completed (or nothing moves any more)
	for w := 0; w < 20000; w++ {
		mu.Lock()
		n := len(completed)
		mu.Unlock()
		if n >= sent {
			break
		}
		time.Sleep(time.Millisecond)
	}
	close(stopDrain)
	<-drained
	// completion order must be send order, each paired with its own request
	for got, f := range completed {
		if got >= len(futs) || f != futs[got] {
			detail = fmt.Sprintf("pipeline future %d completed out of order", got)
			break
		}
		if err := f.Error(); err != nil && pc.refuse[f.Request().Term] && err.Error() == fmt.Sprintf("handler refuses %d", f.Request().Term) {
			continue // the handler's own error, delivered to its own request
		} else if err == nil && pc.refuse[f.Request().Term] {
			detail = fmt.Sprintf("pipeline future %d: the handler's error was not delivered", got)
			break
		} else if err == nil {
			if f.Response().Term != f.Request().Term || f.Response().LastLog != f.Request().Term*7+3 {
				detail = fmt.Sprintf("pipeline future %d: request term %d paired with response (term %d, lastlog %d)", got, f.Request().Term, f.Response().Term, f.Response().LastLog)
				break
			}
		} else if pc.BreakAt == 0 {
			detail = fmt.Sprintf("pipeline future %d failed without a fault: %v", got, err)
			break
		} else {
			break // broken pipeline: the rest is not delivered
		}
	}
	if detail == "" && pc.BreakAt == 0 && len(completed) < sent {
		detail = fmt.Sprintf("only %d of %d pipeline futures completed", len(completed), sent)
	}
	_ = p.Close()
	if detail != "" {
		return detail
	}
	// ordinary calls afterwards (pooled connections): own response or an error
	for i := 0; i < pc.CallsAfter; i++ {
		req := &raft.AppendEntriesRequest{Term: uint64(5000 + i), PrevLogEntry: 9999}
		var resp raft.AppendEntriesResponse
		err := e.t1.AppendEntries("n2", "n2", req, &resp)
		switch {
		case err == nil && pc.refuse[req.Term]:
			detail = fmt.Sprintf("call %d after the pipeline: the handler's error was not delivered", i)
			return detail
		case err == nil:
			if resp.Term != req.Term || resp.LastLog != req.Term*7+3 {
				detail = fmt.Sprintf("call %d after the pipeline: request term %d got the response of another request (term %d, lastlog %d)", i, req.Term, resp.Term, resp.LastLog)
				return detail
			}
		case pc.refuse[req.Term] && err.Error() == fmt.Sprintf("handler refuses %d", req.Term):
		case pc.BreakAt == 0:
			detail = fmt.Sprintf("call %d after the pipeline failed without a network fault: %v", i, err)
			return detail
		}
	}
	return detail
}

func TestC16Pipeline(t *testing.T) {
	r := rep.New("C16", "pipeline")
	r.Extra("test", "TestC16Pipeline")
	defer r.Flush()
	rapid.Check(t, func(rt *rapid.T) {
		if r.Frozen() {
			return
		}
		pc := &c16Pipe{Property: "C16", Engine: "unit", Test: "TestC16Replay", Mode: "pipeline"}
		pc.MaxInFlight = rapid.SampledFrom([]int{2, 3, 10, 130}).Draw(rt, "maxInFlight")
		pc.Depth = rapid.IntRange(1, 12).Draw(rt, "depth")
		pc.Delays = rapid.SliceOfN(rapid.SampledFrom([]int{0, 0, 1, 5, 20}), pc.Depth, pc.Depth).Draw(rt, "delays")
		if rapid.IntRange(0, 2).Draw(rt, "fault") == 0 {
			pc.BreakAt = rapid.IntRange(1, 400).Draw(rt, "breakAfterBytes")
		}
		pc.CallsAfter = rapid.IntRange(1, 4).Draw(rt, "callsAfter")
		if rapid.IntRange(0, 3).Draw(rt, "idle") == 0 {
			pc.IdleBefore = make([]int, pc.Depth)
			pc.IdleBefore[rapid.IntRange(0, pc.Depth-1).Draw(rt, "idleAt")] = rapid.SampledFrom([]int{500, 2500, 7000}).Draw(rt, "idleMs")
		}
		if pc.BreakAt == 0 && rapid.IntRange(0, 3).Draw(rt, "stall") == 0 {
			// the consumer is busy elsewhere for longer than the transport time-out while the sender keeps sending
			pc.StallAfter = rapid.IntRange(1, pc.Depth).Draw(rt, "stallAfter")
			pc.StallMs = rapid.SampledFrom([]int{2500, 4000}).Draw(rt, "stallMs")
		}
		// requests the handler answers with a response AND an error (no network fault)
		for i := 0; i < pc.Depth+pc.CallsAfter; i++ {
			if rapid.IntRange(0, 5).Draw(rt, "handlerErr") == 0 {
				if i < pc.Depth {
					pc.Refuse = append(pc.Refuse, uint64(1000+i))
				} else {
					pc.Refuse = append(pc.Refuse, uint64(5000+i-pc.Depth))
				}
			}
		}
		reordered := false
		for i := 1; i < pc.Depth; i++ {
			if pc.Delays[i] < pc.Delays[i-1] {
				reordered = true
			}
		}
		var detail string
		sim.Bubble(t, func() { detail = c16RunPipeline(pc) })
		r.Case(pc.Depth >= 2 && reordered, rep.Hash(pc.MaxInFlight, pc.Depth, fmt.Sprint(pc.Delays), pc.BreakAt, pc.CallsAfter, fmt.Sprint(pc.Refuse), fmt.Sprint(pc.IdleBefore)), map[bool]string{true: "connection-fault", false: "no-fault"}[pc.BreakAt > 0], map[bool]string{true: "handler-error-then-more-traffic", false: "no-handler-error"}[len(pc.Refuse) > 0], map[bool]string{true: "idle-pipeline-reused", false: "no-idle-period"}[len(pc.IdleBefore) > 0], map[bool]string{true: "consumer-stalls-beyond-the-time-out", false: "consumer-keeps-draining"}[pc.StallAfter > 0])
		if pc.Depth >= 2 && reordered && r.WantSample() {
			r.Sample(map[string]any{"max_in_flight": pc.MaxInFlight, "depth": pc.Depth, "handler_delays_ms": pc.Delays, "break_after_bytes": pc.BreakAt, "calls_after": pc.CallsAfter, "handler_refuses": pc.Refuse})
		}
		if detail != "" {
			detail = fmt.Sprintf("maxInFlight=%d depth=%d delays=%v breakAfterBytes=%d callsAfter=%d refuses=%v idleBefore=%v: %s", pc.MaxInFlight, pc.Depth, pc.Delays, pc.BreakAt, pc.CallsAfter, pc.Refuse, pc.IdleBefore, detail)
			pc.Detail = detail
			path := fmt.Sprintf("%s/C16-pipeline-%d.json", rep.ReplayDir(), os.Getpid())
			writeJSON(path, pc)
			r.Violate("C16", "R", "C16/R2/pipeline-order-or-pairing", detail, path)
			r.Freeze()
			rt.Fatalf("%s", detail)
		}
	})
}

// TestC16Replay re-runs a saved failing case without the library.
func TestC16Replay(t *testing.T) {
	path := os.Getenv("VERIF_REPLAY")
	if path == "" {
		t.Skip("VERIF_REPLAY not set")
	}
	var head struct {
		Mode string `json:"mode"`
	}
	readJSON(t, path, &head)
	var detail string
	if head.Mode == "pipeline" {
		var pc c16Pipe
		readJSON(t, path, &pc)
		sim.Bubble(t, func() { detail = c16RunPipeline(&pc) })
	} else {
		var seq c16Seq
		readJSON(t, path, &seq)
		sim.Bubble(t, func() { detail = c16RunSeq(&seq) })
	}
	if detail != "" {
		t.Fatalf("VIOLATION property=C16 replay=%s\n%s", path, detail)
	}
	t.Log("REPLAY-OK property=C16")
}

var _ = reflect.DeepEqual
