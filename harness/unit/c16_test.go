package unit

// C16 — NetworkTransport delivers RPCs faithfully and pipelines in order.
// Two real NetworkTransports over an in-memory StreamLayer (net.Pipe based,
// with a fault knob) inside a synctest bubble; generated messages of every
// RPC type; oracle: field-by-field round trip, pipeline order and pairing,
// own-response-or-error after a broken exchange.

import (
	"bytes"
	"errors"
	"fmt"
	"io"
	"net"
	"reflect"
	"sync"
	"testing"
	"time"

	"github.com/hashicorp/go-hclog"
	"github.com/hashicorp/raft"
	"pgregory.net/rapid"

	"verif/harness/rep"
	"verif/harness/sim"
)

type memNet struct {
	mu     sync.Mutex
	layers map[string]*memLayer
	// fault knob: the next dialed connection breaks after this many bytes
	// written by the dialer (0 = no fault)
	breakAfter int
}

type memLayer struct {
	n      *memNet
	addr   string
	accept chan net.Conn
	closed chan struct{}
	once   sync.Once
}

type memAddr string

func (a memAddr) Network() string { return "mem" }
func (a memAddr) String() string  { return string(a) }

func (n *memNet) layer(addr string) *memLayer {
	l := &memLayer{n: n, addr: addr, accept: make(chan net.Conn, 16), closed: make(chan struct{})}
	n.mu.Lock()
	n.layers[addr] = l
	n.mu.Unlock()
	return l
}

func (l *memLayer) Accept() (net.Conn, error) {
	select {
	case c := <-l.accept:
		return c, nil
	case <-l.closed:
		return nil, errors.New("listener closed")
	}
}
func (l *memLayer) Close() error   { l.once.Do(func() { close(l.closed) }); return nil }
func (l *memLayer) Addr() net.Addr { return memAddr(l.addr) }
func (l *memLayer) Dial(address raft.ServerAddress, timeout time.Duration) (net.Conn, error) {
	l.n.mu.Lock()
	t := l.n.layers[string(address)]
	k := l.n.breakAfter
	l.n.breakAfter = 0
	l.n.mu.Unlock()
	if t == nil {
		return nil, fmt.Errorf("no route to %s", address)
	}
	c1, c2 := net.Pipe()
	var dialer net.Conn = c1
	if k > 0 {
		dialer = &breakConn{Conn: c1, other: c2, left: k}
	}
	select {
	case t.accept <- c2:
		return dialer, nil
	case <-t.closed:
		return nil, errors.New("connection refused")
	case <-time.After(timeout):
		return nil, errors.New("dial timeout")
	}
}

type breakConn struct {
	net.Conn
	other net.Conn
	left  int
}

func (b *breakConn) Write(p []byte) (int, error) {
	if b.left <= 0 {
		return 0, io.ErrClosedPipe
	}
	if len(p) > b.left {
		n, _ := b.Conn.Write(p[:b.left])
		b.left = 0
		_ = b.Conn.Close()
		_ = b.other.Close()
		return n, io.ErrClosedPipe
	}
	b.left -= len(p)
	return b.Conn.Write(p)
}

// ---------------------------------------------------------------------------
// generators

func genBytes(t *rapid.T, label string, max int) []byte {
	switch rapid.IntRange(0, 3).Draw(t, label+"Kind") {
	case 0:
		return nil
	case 1:
		return []byte{}
	}
	return rapid.SliceOfN(rapid.Byte(), 1, max).Draw(t, label)
}

func genHeader(t *rapid.T) raft.RPCHeader {
	return raft.RPCHeader{ProtocolVersion: raft.ProtocolVersion(rapid.IntRange(0, 3).Draw(t, "pv")), ID: genBytes(t, "hid", 12), Addr: genBytes(t, "haddr", 12)}
}

func genTime(t *rapid.T) time.Time {
	switch rapid.IntRange(0, 3).Draw(t, "timeKind") {
	case 0:
		return time.Time{}
	case 1:
		return time.Unix(rapid.Int64Range(0, 1<<33).Draw(t, "sec"), rapid.Int64Range(0, 999999999).Draw(t, "nsec")).UTC()
	case 2:
		return time.Unix(rapid.Int64Range(0, 1<<33).Draw(t, "sec"), 0).In(time.FixedZone("x", rapid.IntRange(-12, 12).Draw(t, "zone")*3600))
	}
	return time.Unix(rapid.Int64Range(-1000, 1000).Draw(t, "sec"), rapid.Int64Range(0, 999999999).Draw(t, "nsec"))
}

func genLog(t *rapid.T) *raft.Log {
	return &raft.Log{Index: rapid.Uint64().Draw(t, "idx"), Term: rapid.Uint64().Draw(t, "term"), Type: raft.LogType(rapid.IntRange(0, 5).Draw(t, "type")),
		Data: genBytes(t, "data", rapid.SampledFrom([]int{4, 64, 5000}).Draw(t, "dataMax")), Extensions: genBytes(t, "ext", 16), AppendedAt: genTime(t)}
}

func genAE(t *rapid.T) *raft.AppendEntriesRequest {
	a := &raft.AppendEntriesRequest{RPCHeader: genHeader(t), Term: rapid.Uint64().Draw(t, "term"), Leader: genBytes(t, "leader", 12),
		PrevLogEntry: rapid.Uint64().Draw(t, "prev"), PrevLogTerm: rapid.Uint64().Draw(t, "prevTerm"), LeaderCommitIndex: rapid.Uint64().Draw(t, "commit")}
	n := rapid.IntRange(0, 5).Draw(t, "nEntries")
	for i := 0; i < n; i++ {
		a.Entries = append(a.Entries, genLog(t))
	}
	return a
}

func eqBytes(a, b []byte) bool { return bytes.Equal(a, b) } // nil == empty

func eqHeader(a, b raft.RPCHeader) bool {
	return a.ProtocolVersion == b.ProtocolVersion && eqBytes(a.ID, b.ID) && eqBytes(a.Addr, b.Addr)
}

func eqLog(a, b *raft.Log) bool {
	return a.Index == b.Index && a.Term == b.Term && a.Type == b.Type && eqBytes(a.Data, b.Data) && eqBytes(a.Extensions, b.Extensions) && a.AppendedAt.Equal(b.AppendedAt)
}

func eqAE(a, b *raft.AppendEntriesRequest) string {
	if !eqHeader(a.RPCHeader, b.RPCHeader) || a.Term != b.Term || !eqBytes(a.Leader, b.Leader) || a.PrevLogEntry != b.PrevLogEntry || a.PrevLogTerm != b.PrevLogTerm || a.LeaderCommitIndex != b.LeaderCommitIndex {
		return fmt.Sprintf("scalar fields differ: sent %+v received %+v", *a, *b)
	}
	if len(a.Entries) != len(b.Entries) {
		return fmt.Sprintf("entries: sent %d received %d", len(a.Entries), len(b.Entries))
	}
	for i := range a.Entries {
		if !eqLog(a.Entries[i], b.Entries[i]) {
			return fmt.Sprintf("entry %d: sent %+v received %+v", i, *a.Entries[i], *b.Entries[i])
		}
	}
	return ""
}

// ---------------------------------------------------------------------------

type c16Env struct {
	net    *memNet
	t1, t2 *raft.NetworkTransport
	// handler script: what to answer, keyed by arrival order
	mu       sync.Mutex
	received []any
	bodies   [][]byte
	answer   func(n int, cmd any) (any, error, time.Duration)
	stop     chan struct{}
}

func newC16Env(maxInFlight int, newTime bool, timeout time.Duration) *c16Env {
	e := &c16Env{net: &memNet{layers: map[string]*memLayer{}}, stop: make(chan struct{})}
	mk := func(addr string) *raft.NetworkTransport {
		return raft.NewNetworkTransportWithConfig(&raft.NetworkTransportConfig{Stream: e.net.layer(addr), MaxPool: 2, MaxRPCsInFlight: maxInFlight, Timeout: timeout,
			Logger: hclog.NewNullLogger(), MsgpackUseNewTimeFormat: newTime})
	}
	e.t1, e.t2 = mk("n1"), mk("n2")
	go func() {
		n := 0
		for {
			select {
			case rpc := <-e.t2.Consumer():
				var body []byte
				if rpc.Reader != nil {
					body, _ = io.ReadAll(rpc.Reader)
				}
				e.mu.Lock()
				e.received = append(e.received, rpc.Command)
				e.bodies = append(e.bodies, body)
				resp, err, delay := e.answer(n, rpc.Command)
				n++
				e.mu.Unlock()
				if delay > 0 {
					time.Sleep(delay)
				}
				rpc.Respond(resp, err)
			case <-e.stop:
				return
			}
		}
	}()
	return e
}

func (e *c16Env) close() {
	close(e.stop)
	_ = e.t1.Close()
	_ = e.t2.Close()
}

func c16Fail(r *rep.Report, sig, detail string) {
	r.Violate("C16", "R", "C16/"+sig, detail, "")
	r.Freeze()
}

// TestC16RoundTrip: every RPC type with generated values.
func TestC16RoundTrip(t *testing.T) {
	r := rep.New("C16", "roundtrip")
	r.Extra("test", "TestC16RoundTrip")
	defer r.Flush()
	rapid.Check(t, func(rt *rapid.T) {
		if r.Frozen() {
			return
		}
		kind := rapid.SampledFrom([]string{"AE", "AE", "RV", "PV", "IS", "TN"}).Draw(rt, "kind")
		newTime := rapid.Bool().Draw(rt, "newTimeFormat")
		handlerErr := rapid.IntRange(0, 5).Draw(rt, "handlerErr") == 0
		var detail string
		nonEmpty := false
		switch kind {
		case "AE":
			req := genAE(rt)
			nonEmpty = len(req.Entries) > 0
			want := &raft.AppendEntriesResponse{RPCHeader: genHeader(rt), Term: rapid.Uint64().Draw(rt, "rterm"), LastLog: rapid.Uint64().Draw(rt, "rlast"), Success: rapid.Bool().Draw(rt, "rok"), NoRetryBackoff: rapid.Bool().Draw(rt, "rnb")}
			sim.Bubble(t, func() {
				e := newC16Env(2, newTime, time.Second)
				defer e.close()
				e.answer = func(int, any) (any, error, time.Duration) {
					if handlerErr {
						return want, errors.New("handler says no"), 0
					}
					return want, nil, 0
				}
				var got raft.AppendEntriesResponse
				err := e.t1.AppendEntries("n2", "n2", req, &got)
				detail = c16Judge(e, err, handlerErr, func(cmd any) string {
					b, ok := cmd.(*raft.AppendEntriesRequest)
					if !ok {
						return fmt.Sprintf("handler received %T", cmd)
					}
					return eqAE(req, b)
				}, func() string {
					if !eqHeader(got.RPCHeader, want.RPCHeader) || got.Term != want.Term || got.LastLog != want.LastLog || got.Success != want.Success || got.NoRetryBackoff != want.NoRetryBackoff {
						return fmt.Sprintf("response: handler produced %+v caller received %+v", *want, got)
					}
					return ""
				})
			})
		case "RV":
			req := &raft.RequestVoteRequest{RPCHeader: genHeader(rt), Term: rapid.Uint64().Draw(rt, "term"), Candidate: genBytes(rt, "cand", 12), LastLogIndex: rapid.Uint64().Draw(rt, "li"), LastLogTerm: rapid.Uint64().Draw(rt, "lt"), LeadershipTransfer: rapid.Bool().Draw(rt, "lt2")}
			want := &raft.RequestVoteResponse{RPCHeader: genHeader(rt), Term: rapid.Uint64().Draw(rt, "rterm"), Peers: genBytes(rt, "peers", 12), Granted: rapid.Bool().Draw(rt, "granted")}
			nonEmpty = len(req.Candidate) > 0
			sim.Bubble(t, func() {
				e := newC16Env(2, newTime, time.Second)
				defer e.close()
				e.answer = func(int, any) (any, error, time.Duration) {
					if handlerErr {
						return want, errors.New("handler says no"), 0
					}
					return want, nil, 0
				}
				var got raft.RequestVoteResponse
				err := e.t1.RequestVote("n2", "n2", req, &got)
				detail = c16Judge(e, err, handlerErr, func(cmd any) string {
					b, ok := cmd.(*raft.RequestVoteRequest)
					if !ok || !eqHeader(req.RPCHeader, b.RPCHeader) || req.Term != b.Term || !eqBytes(req.Candidate, b.Candidate) || req.LastLogIndex != b.LastLogIndex || req.LastLogTerm != b.LastLogTerm || req.LeadershipTransfer != b.LeadershipTransfer {
						return fmt.Sprintf("sent %+v received %+v", *req, cmd)
					}
					return ""
				}, func() string {
					if !eqHeader(got.RPCHeader, want.RPCHeader) || got.Term != want.Term || !eqBytes(got.Peers, want.Peers) || got.Granted != want.Granted {
						return fmt.Sprintf("response: handler produced %+v caller received %+v", *want, got)
					}
					return ""
				})
			})
		case "PV":
			req := &raft.RequestPreVoteRequest{RPCHeader: genHeader(rt), Term: rapid.Uint64().Draw(rt, "term"), LastLogIndex: rapid.Uint64().Draw(rt, "li"), LastLogTerm: rapid.Uint64().Draw(rt, "lt")}
			want := &raft.RequestPreVoteResponse{RPCHeader: genHeader(rt), Term: rapid.Uint64().Draw(rt, "rterm"), Granted: rapid.Bool().Draw(rt, "granted")}
			nonEmpty = len(req.RPCHeader.ID) > 0
			sim.Bubble(t, func() {
				e := newC16Env(2, newTime, time.Second)
				defer e.close()
				e.answer = func(int, any) (any, error, time.Duration) {
					if handlerErr {
						return want, errors.New("handler says no"), 0
					}
					return want, nil, 0
				}
				var got raft.RequestPreVoteResponse
				err := e.t1.RequestPreVote("n2", "n2", req, &got)
				detail = c16Judge(e, err, handlerErr, func(cmd any) string {
					b, ok := cmd.(*raft.RequestPreVoteRequest)
					if !ok || !eqHeader(req.RPCHeader, b.RPCHeader) || req.Term != b.Term || req.LastLogIndex != b.LastLogIndex || req.LastLogTerm != b.LastLogTerm {
						return fmt.Sprintf("sent %+v received %+v", *req, cmd)
					}
					return ""
				}, func() string {
					if !eqHeader(got.RPCHeader, want.RPCHeader) || got.Term != want.Term || got.Granted != want.Granted {
						return fmt.Sprintf("response: handler produced %+v caller received %+v", *want, got)
					}
					return ""
				})
			})
		case "TN":
			req := &raft.TimeoutNowRequest{RPCHeader: genHeader(rt)}
			want := &raft.TimeoutNowResponse{RPCHeader: genHeader(rt)}
			nonEmpty = len(req.RPCHeader.ID) > 0
			sim.Bubble(t, func() {
				e := newC16Env(2, newTime, time.Second)
				defer e.close()
				e.answer = func(int, any) (any, error, time.Duration) {
					if handlerErr {
						return want, errors.New("handler says no"), 0
					}
					return want, nil, 0
				}
				var got raft.TimeoutNowResponse
				err := e.t1.TimeoutNow("n2", "n2", req, &got)
				detail = c16Judge(e, err, handlerErr, func(cmd any) string {
					b, ok := cmd.(*raft.TimeoutNowRequest)
					if !ok || !eqHeader(req.RPCHeader, b.RPCHeader) {
						return fmt.Sprintf("sent %+v received %+v", *req, cmd)
					}
					return ""
				}, func() string {
					if !eqHeader(got.RPCHeader, want.RPCHeader) {
						return fmt.Sprintf("response: handler produced %+v caller received %+v", *want, got)
					}
					return ""
				})
			})
		case "IS":
			size := rapid.SampledFrom([]int{0, 1, 100, 4096, 70000, 300000}).Draw(rt, "size")
			body := c15Content(size+1, size)
			req := &raft.InstallSnapshotRequest{RPCHeader: genHeader(rt), SnapshotVersion: raft.SnapshotVersion(rapid.IntRange(0, 1).Draw(rt, "sv")), Term: rapid.Uint64().Draw(rt, "term"), Leader: genBytes(rt, "leader", 12),
				LastLogIndex: rapid.Uint64().Draw(rt, "li"), LastLogTerm: rapid.Uint64().Draw(rt, "lt"), Peers: genBytes(rt, "peers", 12), Configuration: genBytes(rt, "conf", 40), ConfigurationIndex: rapid.Uint64().Draw(rt, "ci"), Size: int64(size)}
			want := &raft.InstallSnapshotResponse{RPCHeader: genHeader(rt), Term: rapid.Uint64().Draw(rt, "rterm"), Success: rapid.Bool().Draw(rt, "ok")}
			nonEmpty = size > 0
			sim.Bubble(t, func() {
				e := newC16Env(2, newTime, time.Second)
				defer e.close()
				e.answer = func(int, any) (any, error, time.Duration) {
					if handlerErr {
						return want, errors.New("handler says no"), 0
					}
					return want, nil, 0
				}
				var got raft.InstallSnapshotResponse
				err := e.t1.InstallSnapshot("n2", "n2", req, &got, bytes.NewReader(body))
				detail = c16Judge(e, err, handlerErr, func(cmd any) string {
					b, ok := cmd.(*raft.InstallSnapshotRequest)
					if !ok || !eqHeader(req.RPCHeader, b.RPCHeader) || req.SnapshotVersion != b.SnapshotVersion || req.Term != b.Term || !eqBytes(req.Leader, b.Leader) || req.LastLogIndex != b.LastLogIndex ||
						req.LastLogTerm != b.LastLogTerm || !eqBytes(req.Peers, b.Peers) || !eqBytes(req.Configuration, b.Configuration) || req.ConfigurationIndex != b.ConfigurationIndex || req.Size != b.Size {
						return fmt.Sprintf("sent %+v received %+v", *req, cmd)
					}
					e.mu.Lock()
					defer e.mu.Unlock()
					if !bytes.Equal(e.bodies[0], body) {
						return fmt.Sprintf("snapshot body: sent %d bytes, handler read %d bytes (equal=%v)", len(body), len(e.bodies[0]), bytes.Equal(e.bodies[0], body))
					}
					return ""
				}, func() string {
					if !eqHeader(got.RPCHeader, want.RPCHeader) || got.Term != want.Term || got.Success != want.Success {
						return fmt.Sprintf("response: handler produced %+v caller received %+v", *want, got)
					}
					return ""
				})
			})
		}
		r.Case(nonEmpty, rep.Hash(kind, newTime, handlerErr, rt), kind, map[bool]string{true: "handler-error", false: "handler-ok"}[handlerErr])
		if nonEmpty && r.WantSample() {
			r.Sample(map[string]any{"rpc": kind, "new_time_format": newTime, "handler_error": handlerErr})
		}
		if detail != "" {
			c16Fail(r, "R1/round-trip-differs", kind+": "+detail)
			rt.Fatalf("%s", detail)
		}
	})
}

func c16Judge(e *c16Env, err error, handlerErr bool, cmpReq func(any) string, cmpResp func() string) string {
	e.mu.Lock()
	n := len(e.received)
	var cmd any
	if n > 0 {
		cmd = e.received[0]
	}
	e.mu.Unlock()
	if n != 1 {
		return fmt.Sprintf("handler received %d requests (call error: %v)", n, err)
	}
	if d := cmpReq(cmd); d != "" {
		return "request: " + d
	}
	if handlerErr {
		if err == nil || err.Error() != "handler says no" {
			return fmt.Sprintf("handler error not delivered: %v", err)
		}
		return ""
	}
	if err != nil {
		return "call failed: " + err.Error()
	}
	return cmpResp()
}

// TestC16Pipeline: order and pairing on a pipeline, and own-response-or-error
// on the pooled connections after a broken exchange.
func TestC16Pipeline(t *testing.T) {
	r := rep.New("C16", "pipeline")
	r.Extra("test", "TestC16Pipeline")
	defer r.Flush()
	rapid.Check(t, func(rt *rapid.T) {
		if r.Frozen() {
			return
		}
		maxInFlight := rapid.SampledFrom([]int{2, 3, 10, 130}).Draw(rt, "maxInFlight")
		depth := rapid.IntRange(1, 12).Draw(rt, "depth")
		delays := rapid.SliceOfN(rapid.SampledFrom([]int{0, 0, 1, 5, 20}), depth, depth).Draw(rt, "delays")
		breakAt := 0
		if rapid.IntRange(0, 2).Draw(rt, "fault") == 0 {
			breakAt = rapid.IntRange(1, 400).Draw(rt, "breakAfterBytes")
		}
		nAfter := rapid.IntRange(1, 4).Draw(rt, "callsAfter")
		var detail string
		reordered := false
		for i := 1; i < depth; i++ {
			if delays[i] < delays[i-1] {
				reordered = true
			}
		}
		sim.Bubble(t, func() {
			e := newC16Env(maxInFlight, false, 2*time.Second) // net.Pipe has no buffer: a writer waits for the (sequential) handler, keep time-outs above the summed delays
			defer e.close()
			e.answer = func(n int, cmd any) (any, error, time.Duration) {
				a := cmd.(*raft.AppendEntriesRequest)
				d := time.Duration(0)
				if int(a.PrevLogEntry) < len(delays) {
					d = time.Duration(delays[a.PrevLogEntry]) * time.Millisecond
				}
				return &raft.AppendEntriesResponse{Term: a.Term, LastLog: a.Term*7 + 3, Success: true}, nil, d
			}
			e.net.mu.Lock()
			e.net.breakAfter = breakAt
			e.net.mu.Unlock()
			p, err := e.t1.AppendEntriesPipeline("n2", "n2")
			if err != nil {
				detail = "cannot open pipeline: " + err.Error()
				return
			}
			// a pipeline must be drained concurrently (as raft's pipelineDecode does)
			var mu sync.Mutex
			var futs []raft.AppendFuture
			var completed []raft.AppendFuture
			stopDrain := make(chan struct{})
			drained := make(chan struct{})
			go func() {
				defer close(drained)
				for {
					select {
					case f := <-p.Consumer():
						mu.Lock()
						completed = append(completed, f)
						mu.Unlock()
					case <-stopDrain:
						return
					}
				}
			}()
			sent := 0
			for i := 0; i < depth; i++ {
				req := &raft.AppendEntriesRequest{Term: uint64(1000 + i), PrevLogEntry: uint64(i), Entries: []*raft.Log{{Index: uint64(i), Data: c15Content(i, 30)}}}
				f, err := p.AppendEntries(req, &raft.AppendEntriesResponse{})
				if err != nil {
					break
				}
				mu.Lock()
				futs = append(futs, f)
				mu.Unlock()
				sent++
			}
			// wait until everything sent has completed (or nothing moves any more)
			for w := 0; w < 20000; w++ {
				mu.Lock()
				n := len(completed)
				mu.Unlock()
				if n >= sent {
					break
				}
				time.Sleep(time.Millisecond)
			}
			close(stopDrain)
			<-drained
			// completion order must be send order, each paired with its own request
			for got, f := range completed {
				if got >= len(futs) || f != futs[got] {
					detail = fmt.Sprintf("pipeline future %d completed out of order", got)
					break
				}
				if err := f.Error(); err == nil {
					if f.Response().Term != f.Request().Term || f.Response().LastLog != f.Request().Term*7+3 {
						detail = fmt.Sprintf("pipeline future %d: request term %d paired with response (term %d, lastlog %d)", got, f.Request().Term, f.Response().Term, f.Response().LastLog)
						break
					}
				} else if breakAt == 0 {
					detail = fmt.Sprintf("pipeline future %d failed without a fault: %v", got, err)
					break
				} else {
					break // broken pipeline: the rest is not delivered
				}
			}
			if detail == "" && breakAt == 0 && len(completed) < sent {
				detail = fmt.Sprintf("only %d of %d pipeline futures completed", len(completed), sent)
			}
			_ = p.Close()
			if detail != "" {
				return
			}
			// ordinary calls afterwards (pooled connections): own response or an error
			for i := 0; i < nAfter; i++ {
				req := &raft.AppendEntriesRequest{Term: uint64(5000 + i), PrevLogEntry: 9999}
				var resp raft.AppendEntriesResponse
				if err := e.t1.AppendEntries("n2", "n2", req, &resp); err == nil {
					if resp.Term != req.Term || resp.LastLog != req.Term*7+3 {
						detail = fmt.Sprintf("call %d after the pipeline: request term %d got the response of another request (term %d, lastlog %d)", i, req.Term, resp.Term, resp.LastLog)
						return
					}
				}
			}
		})
		r.Case(depth >= 2 && reordered, rep.Hash(maxInFlight, depth, fmt.Sprint(delays), breakAt, nAfter), map[bool]string{true: "connection-fault", false: "no-fault"}[breakAt > 0])
		if depth >= 2 && reordered && r.WantSample() {
			r.Sample(map[string]any{"max_in_flight": maxInFlight, "depth": depth, "handler_delays_ms": delays, "break_after_bytes": breakAt, "calls_after": nAfter})
		}
		if detail != "" {
			detail = fmt.Sprintf("maxInFlight=%d depth=%d delays=%v breakAfterBytes=%d callsAfter=%d: %s", maxInFlight, depth, delays, breakAt, nAfter, detail)
			c16Fail(r, "R2/pipeline-order-or-pairing", detail)
			rt.Fatalf("%s", detail)
		}
	})
}

var _ = reflect.DeepEqual
