package unit

// C19 — LogCache is transparent to the wrapped LogStore.
//
// Oracle: differential. The same operation sequence is applied to a LogCache
// wrapping a reference store and to a second, bare copy of that reference store
// (same injected errors). After every step FirstIndex, LastIndex and GetLog of
// every index in range must agree (value equality of entries, error-ness of
// errors).

import (
	"errors"
	"fmt"
	"os"
	"testing"

	"github.com/hashicorp/raft"
	"pgregory.net/rapid"

	"verif/harness/rep"
)

// refStore is a gap-tolerant reference LogStore (semantics of InmemStore /
// BoltStore: StoreLogs overwrites, DeleteRange removes what is there).
type refStore struct {
	logs     map[uint64]raft.Log
	failNext string // "store" | "delete" | "get" | ""
}

func newRefStore() *refStore { return &refStore{logs: map[uint64]raft.Log{}} }

var errInjected = errors.New("injected backend error")

func (s *refStore) FirstIndex() (uint64, error) {
	var lo uint64
	found := false
	for i := range s.logs {
		if !found || i < lo {
			lo, found = i, true
		}
	}
	return lo, nil
}
func (s *refStore) LastIndex() (uint64, error) {
	var hi uint64
	for i := range s.logs {
		if i > hi {
			hi = i
		}
	}
	return hi, nil
}
func (s *refStore) GetLog(idx uint64, out *raft.Log) error {
	if s.failNext == "get" {
		s.failNext = ""
		return errInjected
	}
	l, ok := s.logs[idx]
	if !ok {
		return raft.ErrLogNotFound
	}
	*out = l
	out.Data = append([]byte(nil), l.Data...)
	return nil
}
func (s *refStore) StoreLog(l *raft.Log) error { return s.StoreLogs([]*raft.Log{l}) }
func (s *refStore) StoreLogs(ls []*raft.Log) error {
	if s.failNext == "store" {
		s.failNext = ""
		return errInjected
	}
	for _, l := range ls {
		c := *l
		c.Data = append([]byte(nil), l.Data...)
		s.logs[l.Index] = c
	}
	return nil
}
func (s *refStore) DeleteRange(min, max uint64) error {
	if s.failNext == "delete" {
		s.failNext = ""
		return errInjected
	}
	if s.failNext == "delete-partial" {
		// a backend that removes in batches: the first index of the range is
		// gone when the error is reported
		s.failNext = ""
		delete(s.logs, min)
		return errInjected
	}
	for i := range s.logs {
		if i >= min && i <= max {
			delete(s.logs, i)
		}
	}
	return nil
}

type c19op struct {
	Kind string // store | delete | get
	Idx  []uint64
	Var  []byte // per-entry variant (term/data differ)
	Min  uint64
	Max  uint64
	Fail bool
	Part bool // with Fail on a delete: the backend has removed part of the range when it reports the error
}

func (o c19op) String() string {
	f := ""
	if o.Fail {
		f = "!err"
	}
	switch o.Kind {
	case "store":
		return fmt.Sprintf("store%v/%v%s", o.Idx, o.Var, f)
	case "delete":
		if o.Part {
			f += "(partial)"
		}
		return fmt.Sprintf("del[%d,%d]%s", o.Min, o.Max, f)
	}
	return fmt.Sprintf("get%v%s", o.Idx, f)
}

func mkLog(idx uint64, v byte) *raft.Log {
	return &raft.Log{Index: idx, Term: uint64(v) + 1, Type: raft.LogCommand, Data: []byte{byte(idx), v}}
}

func sameLog(a, b *raft.Log) bool {
	return a.Index == b.Index && a.Term == b.Term && a.Type == b.Type && string(a.Data) == string(b.Data) && string(a.Extensions) == string(b.Extensions)
}

type c19pair struct {
	cache *raft.LogCache
	cb    *refStore // backend under the cache
	bare  *refStore
	cap   int
}

func newC19Pair(capacity int) *c19pair {
	cb, bare := newRefStore(), newRefStore()
	c, err := raft.NewLogCache(capacity, cb)
	if err != nil {
		panic(err)
	}
	return &c19pair{cache: c, cb: cb, bare: bare, cap: capacity}
}

// apply runs op on both sides and returns a description of the first
// disagreement ("" if none).
func (p *c19pair) apply(op c19op) string {
	switch op.Kind {
	case "store":
		var a, b []*raft.Log
		for i, idx := range op.Idx {
			a = append(a, mkLog(idx, op.Var[i]))
			b = append(b, mkLog(idx, op.Var[i]))
		}
		if op.Fail {
			p.cb.failNext, p.bare.failNext = "store", "store"
		}
		e1, e2 := p.cache.StoreLogs(a), p.bare.StoreLogs(b)
		p.cb.failNext, p.bare.failNext = "", ""
		if (e1 == nil) != (e2 == nil) {
			return fmt.Sprintf("StoreLogs error mismatch: cache=%v bare=%v", e1, e2)
		}
	case "delete":
		if op.Fail {
			p.cb.failNext, p.bare.failNext = "delete", "delete"
			if op.Part {
				p.cb.failNext, p.bare.failNext = "delete-partial", "delete-partial"
			}
		}
		e1, e2 := p.cache.DeleteRange(op.Min, op.Max), p.bare.DeleteRange(op.Min, op.Max)
		p.cb.failNext, p.bare.failNext = "", ""
		if (e1 == nil) != (e2 == nil) {
			return fmt.Sprintf("DeleteRange error mismatch: cache=%v bare=%v", e1, e2)
		}
	case "get":
		// a backend read error may be masked by a cache hit, but the value
		// must then be what the backend holds.
		for _, idx := range op.Idx {
			if op.Fail {
				p.cb.failNext = "get"
			}
			var got, want raft.Log
			e1 := p.cache.GetLog(idx, &got)
			p.cb.failNext = ""
			e2 := p.bare.GetLog(idx, &want)
			if e1 == nil && (e2 != nil || !sameLog(&got, &want)) {
				return fmt.Sprintf("GetLog(%d) with backend read error returned %+v, backend holds %+v err=%v", idx, got, want, e2)
			}
			if e1 != nil && !op.Fail && e2 == nil {
				return fmt.Sprintf("GetLog(%d) failed (%v) but backend holds it", idx, e1)
			}
		}
	}
	return ""
}

// compare checks all read results over indexes 0..hi.
func (p *c19pair) compare(hi uint64) string {
	f1, e1 := p.cache.FirstIndex()
	f2, e2 := p.bare.FirstIndex()
	if f1 != f2 || (e1 == nil) != (e2 == nil) {
		return fmt.Sprintf("FirstIndex cache=%d,%v bare=%d,%v", f1, e1, f2, e2)
	}
	l1, e1 := p.cache.LastIndex()
	l2, e2 := p.bare.LastIndex()
	if l1 != l2 || (e1 == nil) != (e2 == nil) {
		return fmt.Sprintf("LastIndex cache=%d,%v bare=%d,%v", l1, e1, l2, e2)
	}
	for i := uint64(0); i <= hi; i++ {
		var got, want raft.Log
		g, w := p.cache.GetLog(i, &got), p.bare.GetLog(i, &want)
		if (g == nil) != (w == nil) {
			return fmt.Sprintf("GetLog(%d): cache err=%v (entry %+v) bare err=%v (entry %+v)", i, g, got, w, want)
		}
		if g == nil && !sameLog(&got, &want) {
			return fmt.Sprintf("GetLog(%d): cache=%+v bare=%+v", i, got, want)
		}
	}
	return ""
}

// c19features classifies a sequence: rewrite-after-delete and ring wrap.
func c19features(capacity int, ops []c19op) (rewriteAfterDelete, wrap bool) {
	deleted := map[uint64]bool{}
	slots := map[uint64]uint64{}
	for _, op := range ops {
		switch op.Kind {
		case "store":
			if op.Fail {
				continue
			}
			for _, idx := range op.Idx {
				if deleted[idx] {
					rewriteAfterDelete = true
				}
				s := idx % uint64(capacity)
				if prev, ok := slots[s]; ok && prev != idx {
					wrap = true
				}
				slots[s] = idx
			}
		case "delete":
			if op.Fail {
				continue
			}
			for i := op.Min; i <= op.Max && i < 64; i++ {
				deleted[i] = true
			}
			slots = map[uint64]uint64{}
		}
	}
	return
}

func c19ExhaustiveOps(maxIdx uint64) []c19op {
	var ops []c19op
	for i := uint64(1); i <= maxIdx; i++ {
		for v := byte(0); v < 2; v++ {
			ops = append(ops, c19op{Kind: "store", Idx: []uint64{i}, Var: []byte{v}})
		}
	}
	for i := uint64(1); i < maxIdx; i++ {
		ops = append(ops, c19op{Kind: "store", Idx: []uint64{i, i + 1}, Var: []byte{0, 1}})
	}
	ops = append(ops, c19op{Kind: "store", Idx: []uint64{1, maxIdx}, Var: []byte{1, 1}}) // gap
	for lo := uint64(1); lo <= maxIdx; lo++ {
		for hi := lo; hi <= maxIdx; hi++ {
			ops = append(ops, c19op{Kind: "delete", Min: lo, Max: hi})
		}
	}
	ops = append(ops, c19op{Kind: "delete", Min: 3, Max: 2}) // inverted: no-op on the backend
	ops = append(ops, c19op{Kind: "store", Idx: []uint64{2}, Var: []byte{1}, Fail: true})
	ops = append(ops, c19op{Kind: "delete", Min: 1, Max: 2, Fail: true})
	ops = append(ops, c19op{Kind: "delete", Min: 2, Max: 3, Fail: true, Part: true})
	ops = append(ops, c19op{Kind: "get", Idx: []uint64{1, 2, 3}, Fail: true})
	return ops
}

func c19Fail(r *rep.Report, rule, sig, detail string, capacity int, ops []c19op) string {
	path := fmt.Sprintf("%s/C19-%s-%d.json", rep.ReplayDir(), rule, os.Getpid())
	writeJSON(path, map[string]any{"property": "C19", "engine": "unit", "test": "TestC19Replay", "capacity": capacity, "ops": ops,
		"verdict": map[string]string{"rule": rule, "signature": sig, "detail": detail}})
	r.Violate("C19", rule, sig, detail, path)
	return path
}

func c19Run(capacity int, ops []c19op, hi uint64) (int, string) {
	p := newC19Pair(capacity)
	for i, op := range ops {
		if d := p.apply(op); d != "" {
			return i, d
		}
		if d := p.compare(hi); d != "" {
			return i, d
		}
	}
	return -1, ""
}

func TestC19Exhaustive(t *testing.T) {
	r := rep.New("C19", "exhaustive")
	r.Extra("test", "TestC19Exhaustive")
	defer r.Flush()
	r.Exhaustive = true
	depth := rep.Scale(4, 5)
	const maxIdx = 4
	alphabet := c19ExhaustiveOps(maxIdx)
	r.Extra("alphabet", len(alphabet))
	r.Extra("depth", depth)
	shard, shards := rep.Shard(), rep.Shards()
	seq := make([]c19op, 0, depth)
	var rec func(p *c19pair, capacity, d int) bool
	// Depth-first with state re-execution from scratch at each leaf prefix is
	// wasteful; instead clone-free DFS: re-run the prefix (cheap, ≤5 ops).
	rec = func(_ *c19pair, capacity, d int) bool {
		for ai, op := range alphabet {
			if d == 0 && ai%shards != shard {
				continue
			}
			seq = append(seq, op)
			if at, detail := c19Run(capacity, seq, maxIdx+1); detail != "" {
				c19Fail(r, "R1", "C19/R1/cache-differs-from-backend", fmt.Sprintf("cap=%d step=%d ops=%v: %s", capacity, at, seq, detail), capacity, seq)
				seq = seq[:len(seq)-1]
				return false
			}
			rw, wrap := c19features(capacity, seq)
			cls := []string{}
			if rw {
				cls = append(cls, "rewrite_after_delete")
			}
			if wrap {
				cls = append(cls, "ring_wrap")
			}
			r.CaseDistinct(rw || wrap, cls...)
			if (rw && wrap) && r.WantSample() {
				r.Sample(map[string]any{"capacity": capacity, "ops": fmt.Sprint(seq)})
			}
			if d+1 < depth {
				if !rec(nil, capacity, d+1) {
					seq = seq[:len(seq)-1]
					return false
				}
			}
			seq = seq[:len(seq)-1]
		}
		return true
	}
	for capacity := 1; capacity <= 3; capacity++ {
		if !rec(nil, capacity, 0) {
			t.Errorf("C19 violation (see report)")
			return
		}
	}
}

func c19GenOp(t *rapid.T) c19op {
	kind := rapid.SampledFrom([]string{"store", "store", "store", "delete", "get"}).Draw(t, "kind")
	fail := rapid.IntRange(0, 9).Draw(t, "fail") == 0
	switch kind {
	case "store":
		n := rapid.IntRange(1, 4).Draw(t, "n")
		start := rapid.Uint64Range(1, 12).Draw(t, "start") // raft log indexes start at 1
		op := c19op{Kind: "store", Fail: fail}
		idx := start
		for i := 0; i < n; i++ {
			op.Idx = append(op.Idx, idx)
			op.Var = append(op.Var, rapid.Byte().Draw(t, "v")%3)
			idx += uint64(rapid.IntRange(0, 2).Draw(t, "gap")) // 0 = rewrite inside a batch, 2 = gap
			if rapid.IntRange(0, 3).Draw(t, "contig") != 0 {
				idx = op.Idx[len(op.Idx)-1] + 1
			}
		}
		return op
	case "delete":
		lo := rapid.Uint64Range(0, 13).Draw(t, "lo")
		hi := rapid.Uint64Range(0, 13).Draw(t, "hi")
		return c19op{Kind: "delete", Min: lo, Max: hi, Fail: fail, Part: fail && rapid.Bool().Draw(t, "partial")}
	}
	return c19op{Kind: "get", Idx: []uint64{rapid.Uint64Range(0, 13).Draw(t, "i")}, Fail: fail}
}

func TestC19Random(t *testing.T) {
	r := rep.New("C19", "random")
	r.Extra("test", "TestC19Random")
	defer r.Flush()
	rapid.Check(t, func(t *rapid.T) {
		capacity := rapid.IntRange(1, 5).Draw(t, "capacity")
		ops := rapid.SliceOfN(rapid.Custom(c19GenOp), 1, 40).Draw(t, "ops")
		at, detail := c19Run(capacity, ops, 14)
		rw, wrap := c19features(capacity, ops)
		cls := []string{}
		if rw {
			cls = append(cls, "rewrite_after_delete")
		}
		if wrap {
			cls = append(cls, "ring_wrap")
		}
		r.Case(rw || wrap, rep.Hash(capacity, fmt.Sprint(ops)), cls...)
		if rw && wrap && len(ops) < 12 {
			r.Sample(map[string]any{"capacity": capacity, "ops": fmt.Sprint(ops)})
		}
		if detail != "" {
			c19Fail(r, "R1", "C19/R1/cache-differs-from-backend", fmt.Sprintf("cap=%d step=%d ops=%v: %s", capacity, at, ops, detail), capacity, ops)
			r.Freeze()
			t.Fatalf("C19: %s", detail)
		}
	})
}

// TestC19Replay re-runs a saved failing sequence without the library.
func TestC19Replay(t *testing.T) {
	path := os.Getenv("VERIF_REPLAY")
	if path == "" {
		t.Skip("no VERIF_REPLAY")
	}
	var f struct {
		Capacity int
		Ops      []c19op
	}
	readJSON(t, path, &f)
	if at, detail := c19Run(f.Capacity, f.Ops, 14); detail != "" {
		fmt.Printf("REPLAY-VIOLATION property=C19 step=%d %s\n", at, detail)
		t.Fatalf("reproduced: %s", detail)
	}
	fmt.Println("REPLAY-OK property=C19 (no violation on this tree)")
}
