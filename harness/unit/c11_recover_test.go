package unit

// C11, the RecoverCluster path: the library's own off-line recovery writes a
// snapshot and wipes the log. Whatever snapshot it leaves must hold exactly
// the history up to the index it claims, also when the newest snapshot of the
// server cannot be read and recovery falls back to an older one.
//
// Generated: a server's durable state (log 1..L of commands / no-ops /
// barriers / configurations with non-decreasing terms, compacted to a first
// index no higher than the newest snapshot + 1, zero to two snapshots holding
// the fold of the history up to their index) plus storage faults on the
// snapshots (Open fails, or the state does not decode). Oracle: the history
// the generator wrote.

import (
	"bytes"
	"encoding/json"
	"errors"
	"fmt"
	"io"
	"os"
	"testing"

	"github.com/hashicorp/raft"
	"pgregory.net/rapid"

	"verif/harness/rep"
)

type rcEntry struct {
	Term    uint64 `json:"term"`
	Type    int    `json:"type"` // 0 command, 1 noop, 2 barrier, 3 configuration
	Payload string `json:"payload,omitempty"`
}

type rcSnap struct {
	Index uint64 `json:"index"`
	Fault int    `json:"fault"` // 0 none, 1 Open fails, 2 state does not decode
}

type rcCase struct {
	Property string    `json:"property"`
	Engine   string    `json:"engine"`
	Test     string    `json:"test"`
	Entries  []rcEntry `json:"entries"` // index i+1
	First    uint64    `json:"first"`   // first index still in the log (L+1: empty log)
	Snaps    []rcSnap  `json:"snaps"`   // ascending index
	Detail   string    `json:"detail,omitempty"`
}

type rcFSM struct{ applied []string }

func (f *rcFSM) Apply(l *raft.Log) interface{} { f.applied = append(f.applied, string(l.Data)); return nil }
func (f *rcFSM) Snapshot() (raft.FSMSnapshot, error) {
	b, _ := json.Marshal(f.applied)
	return &rcFSMSnap{b}, nil
}
func (f *rcFSM) Restore(rc io.ReadCloser) error {
	defer rc.Close()
	b, err := io.ReadAll(rc)
	if err != nil {
		return err
	}
	var v []string
	if err := json.Unmarshal(b, &v); err != nil {
		return err
	}
	f.applied = v
	return nil
}

type rcFSMSnap struct{ b []byte }

func (s *rcFSMSnap) Persist(sink raft.SnapshotSink) error {
	if _, err := sink.Write(s.b); err != nil {
		_ = sink.Cancel()
		return err
	}
	return sink.Close()
}
func (s *rcFSMSnap) Release() {}

type rcStoredSnap struct {
	meta    raft.SnapshotMeta
	data    []byte
	openErr bool
}

type rcSnapStore struct {
	snaps []*rcStoredSnap // newest first
	seq   int
}

type rcSink struct {
	st   *rcSnapStore
	s    *rcStoredSnap
	buf  bytes.Buffer
	done bool
}

func (k *rcSink) Write(p []byte) (int, error) { return k.buf.Write(p) }
func (k *rcSink) Close() error {
	if k.done {
		return nil
	}
	k.done = true
	k.s.data = append([]byte(nil), k.buf.Bytes()...)
	k.s.meta.Size = int64(len(k.s.data))
	k.st.snaps = append([]*rcStoredSnap{k.s}, k.st.snaps...)
	return nil
}
func (k *rcSink) ID() string    { return k.s.meta.ID }
func (k *rcSink) Cancel() error { k.done = true; return nil }

func (s *rcSnapStore) Create(version raft.SnapshotVersion, index, term uint64, configuration raft.Configuration, configurationIndex uint64, trans raft.Transport) (raft.SnapshotSink, error) {
	s.seq++
	return &rcSink{st: s, s: &rcStoredSnap{meta: raft.SnapshotMeta{Version: version, ID: fmt.Sprintf("snap-%d", s.seq), Index: index, Term: term,
		Configuration: configuration.Clone(), ConfigurationIndex: configurationIndex}}}, nil
}
func (s *rcSnapStore) List() ([]*raft.SnapshotMeta, error) {
	var out []*raft.SnapshotMeta
	for _, x := range s.snaps {
		m := x.meta
		out = append(out, &m)
	}
	return out, nil
}
func (s *rcSnapStore) Open(id string) (*raft.SnapshotMeta, io.ReadCloser, error) {
	for _, x := range s.snaps {
		if x.meta.ID == id {
			if x.openErr {
				return nil, nil, errors.New("snapshot unreadable (injected)")
			}
			m := x.meta
			return &m, io.NopCloser(bytes.NewReader(x.data)), nil
		}
	}
	return nil, nil, errors.New("no such snapshot")
}

func rcFold(c *rcCase, upto uint64) []string {
	out := []string{}
	for i := uint64(1); i <= upto && i <= uint64(len(c.Entries)); i++ {
		if e := c.Entries[i-1]; e.Type == 0 {
			out = append(out, e.Payload)
		}
	}
	return out
}

var rcConfig = raft.Configuration{Servers: []raft.Server{{Suffrage: raft.Voter, ID: "a", Address: "a"}, {Suffrage: raft.Voter, ID: "b", Address: "b"}, {Suffrage: raft.Nonvoter, ID: "c", Address: "c"}}}

// rcRun builds the durable state, calls raft.RecoverCluster and judges what it left.
func rcRun(c *rcCase) (detail string, refused bool) {
	L := uint64(len(c.Entries))
	store := raft.NewInmemStore()
	_ = store.SetUint64([]byte("CurrentTerm"), c.Entries[L-1].Term)
	types := []raft.LogType{raft.LogCommand, raft.LogNoop, raft.LogBarrier, raft.LogConfiguration}
	for i := c.First; i <= L; i++ {
		e := c.Entries[i-1]
		l := &raft.Log{Index: i, Term: e.Term, Type: types[e.Type], Data: []byte(e.Payload)}
		if e.Type == 3 {
			l.Data = raft.EncodeConfiguration(rcConfig)
		}
		_ = store.StoreLog(l)
	}
	snaps := &rcSnapStore{}
	for _, s := range c.Snaps {
		b, _ := json.Marshal(rcFold(c, s.Index))
		if s.Fault == 2 {
			b = b[:len(b)/2]
		}
		snaps.seq++
		snaps.snaps = append([]*rcStoredSnap{{meta: raft.SnapshotMeta{Version: 1, ID: fmt.Sprintf("snap-%d", snaps.seq), Index: s.Index, Term: c.Entries[s.Index-1].Term,
			Configuration: rcConfig.Clone(), ConfigurationIndex: 1, Size: int64(len(b))}, data: b, openErr: s.Fault == 1}}, snaps.snaps...)
	}
	// what a recovery can be based on: the newest snapshot that reads, then a log that connects to it
	base, anyReadable := uint64(0), len(c.Snaps) == 0
	for i := len(c.Snaps) - 1; i >= 0; i-- {
		if c.Snaps[i].Fault == 0 {
			base, anyReadable = c.Snaps[i].Index, true
			break
		}
	}
	possible := anyReadable && (c.First > L || c.First <= base+1)
	before, _ := snaps.List()
	firstBefore, _ := store.FirstIndex()
	lastBefore, _ := store.LastIndex()

	conf := raft.DefaultConfig()
	conf.LocalID = "a"
	conf.LogOutput = io.Discard
	_, trans := raft.NewInmemTransport("a")
	target := raft.Configuration{Servers: []raft.Server{{Suffrage: raft.Voter, ID: "a", Address: "a"}}}
	err := raft.RecoverCluster(conf, &rcFSM{}, store, store, snaps, trans, target)

	// whatever happened: every snapshot that reads holds the history up to its index
	after, _ := snaps.List()
	for _, m := range after {
		_, rc, oerr := snaps.Open(m.ID)
		if oerr != nil {
			continue
		}
		f := &rcFSM{}
		if f.Restore(rc) != nil {
			continue
		}
		want := rcFold(c, m.Index)
		if fmt.Sprint(f.applied) != fmt.Sprint(want) {
			return fmt.Sprintf("snapshot %s claims index %d but holds %d commands %v; the history up to that index has %d: %v (RecoverCluster returned %v)", m.ID, m.Index, len(f.applied), f.applied, len(want), want, err), err != nil
		}
		if m.Index > L {
			return fmt.Sprintf("snapshot %s claims index %d beyond the last index %d", m.ID, m.Index, L), err != nil
		}
	}
	if err != nil {
		if possible {
			return fmt.Sprintf("RecoverCluster refused a recoverable state: %v", err), true
		}
		// refused: nothing may have been taken away
		f2, _ := store.FirstIndex()
		l2, _ := store.LastIndex()
		if f2 != firstBefore || l2 != lastBefore || len(after) < len(before) {
			return fmt.Sprintf("RecoverCluster failed (%v) and left log [%d,%d] (was [%d,%d]), %d snapshots (were %d)", err, f2, l2, firstBefore, lastBefore, len(after), len(before)), true
		}
		return "", true
	}
	if len(after) == 0 {
		return "RecoverCluster succeeded without leaving a snapshot", false
	}
	newest := after[0]
	wantIdx := L
	if c.First > L {
		wantIdx = base // nothing but the readable snapshot is left: what the unreadable one held is lost to the storage fault, not to the recovery
	}
	if newest.Index != wantIdx || newest.Term != c.Entries[wantIdx-1].Term {
		return fmt.Sprintf("RecoverCluster succeeded; newest snapshot is (%d, term %d), the last recoverable entry was (%d, term %d)", newest.Index, newest.Term, wantIdx, c.Entries[wantIdx-1].Term), false
	}
	if _, rc, oerr := snaps.Open(newest.ID); oerr != nil {
		return fmt.Sprintf("RecoverCluster succeeded; its snapshot does not open: %v", oerr), false
	} else {
		rc.Close()
	}
	if len(newest.Configuration.Servers) != 1 || newest.Configuration.Servers[0].ID != "a" {
		return fmt.Sprintf("RecoverCluster succeeded; its snapshot carries configuration %v, not the one supplied", newest.Configuration), false
	}
	// every index up to the last one is covered by the snapshot or still in the log
	f2, _ := store.FirstIndex()
	l2, _ := store.LastIndex()
	if l2 != 0 && (f2 > newest.Index+1) {
		return fmt.Sprintf("RecoverCluster succeeded; snapshot at %d, log [%d,%d]: gap", newest.Index, f2, l2), false
	}
	return "", false
}

func genRcCase(t *rapid.T) *rcCase {
	c := &rcCase{Property: "C11", Engine: "unit", Test: "TestC11RecoverReplay"}
	L := rapid.IntRange(1, 14).Draw(t, "last")
	term := uint64(1)
	for i := 1; i <= L; i++ {
		if rapid.IntRange(0, 3).Draw(t, "newTerm") == 0 {
			term++
		}
		ty := rapid.SampledFrom([]int{0, 0, 0, 0, 1, 2, 3}).Draw(t, "type")
		e := rcEntry{Term: term, Type: ty}
		if ty == 0 {
			e.Payload = fmt.Sprintf("c%d", i)
		}
		c.Entries = append(c.Entries, e)
	}
	ns := rapid.IntRange(0, 2).Draw(t, "snapshots")
	if ns > L {
		ns = L
	}
	idx := map[uint64]bool{}
	for len(idx) < ns {
		idx[uint64(rapid.IntRange(1, L).Draw(t, "snapIndex"))] = true
	}
	for i := uint64(1); i <= uint64(L); i++ {
		if idx[i] {
			c.Snaps = append(c.Snaps, rcSnap{Index: i, Fault: rapid.SampledFrom([]int{0, 0, 1, 2}).Draw(t, "fault")})
		}
	}
	c.First = 1
	if ns > 0 {
		newest := c.Snaps[len(c.Snaps)-1].Index
		c.First = uint64(rapid.IntRange(1, int(newest)+1).Draw(t, "first")) // compaction never goes past the newest snapshot
	}
	return c
}

func TestC11Recover(t *testing.T) {
	r := rep.New("C11", "recover")
	r.Extra("test", "TestC11Recover")
	defer r.Flush()
	rapid.Check(t, func(t *rapid.T) {
		if r.Frozen() {
			return
		}
		c := genRcCase(t)
		detail, refused := rcRun(c)
		fallback, gap := false, false
		if n := len(c.Snaps); n > 0 && c.Snaps[n-1].Fault != 0 {
			fallback = true
			older := uint64(0)
			for i := n - 2; i >= 0; i-- {
				if c.Snaps[i].Fault == 0 {
					older = c.Snaps[i].Index
					break
				}
			}
			gap = c.First > older+1 && c.First <= uint64(len(c.Entries))
		}
		cls := []string{map[bool]string{true: "refused", false: "recovered"}[refused]}
		if fallback {
			cls = append(cls, "newest-snapshot-unreadable")
		}
		if gap {
			cls = append(cls, "log-does-not-connect-to-the-readable-snapshot")
		}
		if c.First > 1 {
			cls = append(cls, "compacted-log")
		}
		r.Case(len(c.Snaps) > 0 && c.First > 1, rep.Hash(fmt.Sprint(*c)), cls...)
		if gap && r.WantSample() {
			r.Sample(map[string]any{"last_index": len(c.Entries), "first_log_index": c.First, "snapshots": c.Snaps, "outcome": cls[0]})
		}
		if detail != "" {
			c.Detail = detail
			path := fmt.Sprintf("%s/C11-recover-%d.json", rep.ReplayDir(), os.Getpid())
			writeJSON(path, c)
			r.Violate("C11", "R2", "C11/R2/recovercluster-snapshot-differs-from-history", detail, path)
			r.Freeze()
			t.Fatalf("C11: %s", detail)
		}
	})
}

// TestC11RecoverReplay re-runs a saved failing case without the library.
func TestC11RecoverReplay(t *testing.T) {
	path := os.Getenv("VERIF_REPLAY")
	if path == "" {
		t.Skip("no VERIF_REPLAY")
	}
	var c rcCase
	readJSON(t, path, &c)
	if detail, _ := rcRun(&c); detail != "" {
		fmt.Printf("REPLAY-VIOLATION property=C11 %s\n", detail)
		t.Fatalf("reproduced: %s", detail)
	}
	fmt.Println("REPLAY-OK property=C11 (no violation on this tree)")
}
