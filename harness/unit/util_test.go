package unit

import (
	"encoding/json"
	"os"
	"testing"
)

func writeJSON(path string, v any) {
	b, err := json.MarshalIndent(v, "", " ")
	if err != nil {
		panic(err)
	}
	_ = os.WriteFile(path, b, 0o644)
}

func readJSON(t *testing.T, path string, v any) {
	b, err := os.ReadFile(path)
	if err != nil {
		t.Fatalf("read replay: %v", err)
	}
	if err := json.Unmarshal(b, v); err != nil {
		t.Fatalf("parse replay: %v", err)
	}
}
