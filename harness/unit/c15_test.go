package unit

// C15 — FileSnapshotStore crash atomicity.
//
// A generated history of snapshot operations runs in a child process under
// strace against the real FileSnapshotStore (fsync enabled, the production
// path). Every prefix of the recorded file-system syscalls is a crash point;
// for each, three images are materialised (everything kept / un-fsynced file
// data lost / directory operations in the snapshot root after its last fsync
// undone) and opened with a fresh store.

import (
	"bytes"
	"encoding/hex"
	"encoding/json"
	"fmt"
	"io"
	"os"
	"os/exec"
	"path/filepath"
	"regexp"
	"sort"
	"strconv"
	"strings"
	"syscall"
	"testing"
	"time"

	"github.com/hashicorp/go-hclog"
	"github.com/hashicorp/raft"
	"pgregory.net/rapid"

	"verif/harness/rep"
)

type c15Op struct {
	Op     string `json:"op"` // create | reopen
	Term   uint64 `json:"term,omitempty"`
	Index  uint64 `json:"index,omitempty"`
	Size   int    `json:"size,omitempty"`
	Chunks int    `json:"chunks,omitempty"`
	End    string `json:"end,omitempty"` // close | cancel | abandon
	Retain int    `json:"retain,omitempty"`
}

type c15Prog struct {
	Retain int     `json:"retain"`
	Ops    []c15Op `json:"ops"`
}

func c15Content(seq, size int) []byte {
	b := make([]byte, size)
	x := uint32(seq*2654435761 + 12345)
	for i := range b {
		x = x*1664525 + 1013904223
		b[i] = byte(x >> 24)
	}
	return b
}

func mark(format string, a ...any) {
	_, _ = syscall.Write(1, []byte(fmt.Sprintf("MARK "+format+"\n", a...)))
}

// TestC15Child is the child process body (does nothing unless C15_DIR is set).
func TestC15Child(t *testing.T) {
	dir := os.Getenv("C15_DIR")
	if dir == "" {
		t.Skip("not a child")
	}
	var prog c15Prog
	b, _ := os.ReadFile(os.Getenv("C15_PROG"))
	if err := json.Unmarshal(b, &prog); err != nil {
		t.Fatal(err)
	}
	logger := hclog.NewNullLogger()
	retain := prog.Retain
	store, err := raft.NewFileSnapshotStoreWithLogger(dir, retain, logger)
	if err != nil {
		t.Fatal(err)
	}
	_, tr := raft.NewInmemTransport("")
	seq := 0
	for _, op := range prog.Ops {
		switch op.Op {
		case "reopen":
			if op.Retain > 0 {
				retain = op.Retain
			}
			mark("reopen retain=%d", retain)
			store, err = raft.NewFileSnapshotStoreWithLogger(dir, retain, logger)
			if err != nil {
				t.Fatal(err)
			}
		case "create":
			seq++
			time.Sleep(2 * time.Millisecond) // snapshot names carry a millisecond timestamp
			cfg := raft.Configuration{Servers: []raft.Server{{Suffrage: raft.Voter, ID: "a", Address: "addr-a"}}}
			sink, err := store.Create(1, op.Index, op.Term, cfg, 1, tr)
			if err != nil {
				mark("create-failed seq=%d", seq)
				continue
			}
			mark("created seq=%d id=%s term=%d index=%d size=%d", seq, sink.ID(), op.Term, op.Index, op.Size)
			data := c15Content(seq, op.Size)
			chunks := op.Chunks
			if chunks < 1 {
				chunks = 1
			}
			for c := 0; c < chunks; c++ {
				lo, hi := c*len(data)/chunks, (c+1)*len(data)/chunks
				if _, err := sink.Write(data[lo:hi]); err != nil {
					mark("write-failed seq=%d", seq)
				}
			}
			switch op.End {
			case "close":
				if err := sink.Close(); err == nil {
					mark("close-ok seq=%d", seq)
				} else {
					mark("close-failed seq=%d", seq)
				}
			case "cancel":
				_ = sink.Cancel()
				mark("cancelled seq=%d", seq)
			default:
				mark("abandoned seq=%d", seq)
			}
		}
	}
	mark("end")
}

// ---------------------------------------------------------------------------
// strace parsing

type fsOp struct {
	Kind  string // mkdir open write fsync rename unlink rmdir mark
	Path  string
	To    string
	Data  []byte
	Fd    string
	Trunc bool
}

var reFdPath = regexp.MustCompile(`^(\d+)<([^>]*)>`)

func unhex(s string) []byte {
	// strace -xx: "\x41\x42"
	s = strings.ReplaceAll(s, `\x`, "")
	b, err := hex.DecodeString(s)
	if err != nil {
		return []byte(s)
	}
	return b
}

// splitArgs splits a syscall argument list at top-level commas.
func splitArgs(s string) []string {
	var out []string
	depth, inq := 0, false
	cur := strings.Builder{}
	for i := 0; i < len(s); i++ {
		c := s[i]
		switch {
		case c == '"' && (i == 0 || s[i-1] != '\\'):
			inq = !inq
			cur.WriteByte(c)
		case !inq && (c == '<' || c == '(' || c == '{' || c == '['):
			depth++
			cur.WriteByte(c)
		case !inq && (c == '>' || c == ')' || c == '}' || c == ']'):
			depth--
			cur.WriteByte(c)
		case !inq && depth == 0 && c == ',':
			out = append(out, strings.TrimSpace(cur.String()))
			cur.Reset()
		default:
			cur.WriteByte(c)
		}
	}
	if cur.Len() > 0 {
		out = append(out, strings.TrimSpace(cur.String()))
	}
	return out
}

func strArg(a string) string {
	a = strings.TrimSpace(a)
	a = strings.TrimSuffix(a, "...")
	a = strings.Trim(a, `"`)
	return string(unhex(a))
}

// fdPath parses "7<path>" (the path is hex-escaped under -xx).
func fdPath(arg string) []string {
	m := reFdPath.FindStringSubmatch(strings.TrimSpace(arg))
	if m == nil {
		return nil
	}
	if strings.Contains(m[2], `\x`) {
		m[2] = string(unhex(m[2]))
	}
	return m
}

func resolveAt(dirfd, p string) string {
	if filepath.IsAbs(p) {
		return filepath.Clean(p)
	}
	if m := fdPath(dirfd); m != nil {
		return filepath.Join(m[2], p)
	}
	return p
}

func parseStrace(path, root string) ([]fsOp, error) {
	raw, err := os.ReadFile(path)
	if err != nil {
		return nil, err
	}
	// join unfinished/resumed pairs per pid
	pending := map[string]string{}
	var lines []string
	reUnf := regexp.MustCompile(`^(\d+)\s+(.*) <unfinished \.\.\.>$`)
	reRes := regexp.MustCompile(`^(\d+)\s+<\.\.\. (\w+) resumed>(.*)$`)
	for _, ln := range strings.Split(string(raw), "\n") {
		if m := reUnf.FindStringSubmatch(ln); m != nil {
			pending[m[1]] = m[2]
			continue
		}
		if m := reRes.FindStringSubmatch(ln); m != nil {
			lines = append(lines, m[1]+" "+pending[m[1]]+m[3])
			delete(pending, m[1])
			continue
		}
		lines = append(lines, ln)
	}
	reCall := regexp.MustCompile(`^(\d+)\s+(\w+)\((.*)\)\s+= (-?\d+)(.*)$`)
	var ops []fsOp
	for _, ln := range lines {
		m := reCall.FindStringSubmatch(ln)
		if m == nil {
			continue
		}
		name, args, ret := m[2], splitArgs(m[3]), m[4]
		if ret == "-1" {
			continue
		}
		under := func(p string) bool { return strings.HasPrefix(p, root) }
		switch name {
		case "write":
			fm := fdPath(args[0])
			if fm == nil {
				continue
			}
			n, _ := strconv.Atoi(ret)
			data := unhex(strings.Trim(strings.TrimSuffix(args[1], "..."), `"`))
			if len(data) > n {
				data = data[:n]
			}
			if fm[1] == "1" && bytes.HasPrefix(data, []byte("MARK ")) {
				ops = append(ops, fsOp{Kind: "mark", Path: strings.TrimSpace(string(data[5:]))})
			} else if under(fm[2]) {
				ops = append(ops, fsOp{Kind: "write", Path: fm[2], Data: data, Fd: fm[1]})
			}
		case "openat":
			p := resolveAt(args[0], strArg(args[1]))
			if under(p) && strings.Contains(args[2], "O_CREAT") {
				ops = append(ops, fsOp{Kind: "open", Path: p, Trunc: strings.Contains(args[2], "O_TRUNC"), Fd: ret})
			}
		case "fsync", "fdatasync":
			if fm := fdPath(args[0]); fm != nil && under(fm[2]) {
				ops = append(ops, fsOp{Kind: "fsync", Path: fm[2]})
			}
		case "mkdirat":
			if p := resolveAt(args[0], strArg(args[1])); under(p) {
				ops = append(ops, fsOp{Kind: "mkdir", Path: p})
			}
		case "mkdir":
			if p := filepath.Clean(strArg(args[0])); under(p) {
				ops = append(ops, fsOp{Kind: "mkdir", Path: p})
			}
		case "renameat", "renameat2":
			from, to := resolveAt(args[0], strArg(args[1])), resolveAt(args[2], strArg(args[3]))
			if under(from) {
				ops = append(ops, fsOp{Kind: "rename", Path: from, To: to})
			}
		case "rename":
			from, to := filepath.Clean(strArg(args[0])), filepath.Clean(strArg(args[1]))
			if under(from) {
				ops = append(ops, fsOp{Kind: "rename", Path: from, To: to})
			}
		case "unlinkat":
			p := resolveAt(args[0], strArg(args[1]))
			if under(p) {
				k := "unlink"
				if strings.Contains(args[2], "AT_REMOVEDIR") {
					k = "rmdir"
				}
				ops = append(ops, fsOp{Kind: k, Path: p})
			}
		case "unlink":
			if p := filepath.Clean(strArg(args[0])); under(p) {
				ops = append(ops, fsOp{Kind: "unlink", Path: p})
			}
		case "rmdir":
			if p := filepath.Clean(strArg(args[0])); under(p) {
				ops = append(ops, fsOp{Kind: "rmdir", Path: p})
			}
		}
	}
	return ops, nil
}

// ---------------------------------------------------------------------------
// model file system

type mfile struct {
	data   []byte
	synced []byte
}

type mfs struct {
	dirs  map[string]bool
	files map[string]*mfile
}

func newMFS(root string) *mfs {
	return &mfs{dirs: map[string]bool{root: true}, files: map[string]*mfile{}}
}

func (m *mfs) clone() *mfs {
	c := &mfs{dirs: map[string]bool{}, files: map[string]*mfile{}}
	for k := range m.dirs {
		c.dirs[k] = true
	}
	for k, f := range m.files {
		c.files[k] = &mfile{data: append([]byte(nil), f.data...), synced: append([]byte(nil), f.synced...)}
	}
	return c
}

func (m *mfs) apply(o fsOp) {
	switch o.Kind {
	case "mkdir":
		if m.dirs[filepath.Dir(o.Path)] {
			m.dirs[o.Path] = true
		}
	case "open":
		if !m.dirs[filepath.Dir(o.Path)] {
			return
		}
		if f, ok := m.files[o.Path]; !ok {
			m.files[o.Path] = &mfile{}
		} else if o.Trunc {
			f.data = nil
		}
	case "write":
		if f, ok := m.files[o.Path]; ok {
			f.data = append(f.data, o.Data...)
		}
	case "fsync":
		if f, ok := m.files[o.Path]; ok {
			f.synced = append([]byte(nil), f.data...)
		}
	case "rename":
		if m.dirs[o.Path] {
			for d := range m.dirs {
				if d == o.Path || strings.HasPrefix(d, o.Path+"/") {
					delete(m.dirs, d)
					m.dirs[o.To+strings.TrimPrefix(d, o.Path)] = true
				}
			}
			for p, f := range m.files {
				if strings.HasPrefix(p, o.Path+"/") {
					delete(m.files, p)
					m.files[o.To+strings.TrimPrefix(p, o.Path)] = f
				}
			}
		} else if f, ok := m.files[o.Path]; ok {
			delete(m.files, o.Path)
			m.files[o.To] = f
		}
	case "unlink":
		delete(m.files, o.Path)
	case "rmdir":
		delete(m.dirs, o.Path)
	}
}

func (m *mfs) materialise(root, dst string, syncedOnly bool) error {
	var ds []string
	for d := range m.dirs {
		ds = append(ds, d)
	}
	sort.Strings(ds)
	for _, d := range ds {
		if err := os.MkdirAll(filepath.Join(dst, strings.TrimPrefix(d, root)), 0o755); err != nil {
			return err
		}
	}
	for p, f := range m.files {
		data := f.data
		if syncedOnly {
			data = f.synced
		}
		tp := filepath.Join(dst, strings.TrimPrefix(p, root))
		if _, err := os.Stat(filepath.Dir(tp)); err != nil {
			continue
		}
		if err := os.WriteFile(tp, data, 0o644); err != nil {
			return err
		}
	}
	return nil
}

// ---------------------------------------------------------------------------

type c15Snap struct {
	seq         int
	id          string
	term, index uint64
	size        int
	closedAt    int  // op position of the close-ok mark (-1: never)
	doomed      bool // cancelled / abandoned / close failed
}

func c15Less(a, b *c15Snap) bool {
	if a.term != b.term {
		return a.term < b.term
	}
	if a.index != b.index {
		return a.index < b.index
	}
	return a.id < b.id
}

// c15Check opens an image with a fresh store and judges it.
func c15Check(imgDir string, retain int, snaps map[string]*c15Snap, alive []*c15Snap, image string) string {
	store, err := raft.NewFileSnapshotStoreWithLogger(imgDir, retain, hclog.NewNullLogger())
	if err != nil {
		return "cannot open store on image: " + err.Error()
	}
	list, err := store.List()
	if err != nil {
		return "List failed: " + err.Error()
	}
	if len(list) > retain {
		return fmt.Sprintf("List returns %d snapshots, retain is %d", len(list), retain)
	}
	listed := map[string]bool{}
	for i, m := range list {
		listed[m.ID] = true
		sn := snaps[m.ID]
		if sn == nil {
			return "listed snapshot " + m.ID + " was never created"
		}
		if sn.doomed {
			return fmt.Sprintf("listed snapshot %s (seq %d) was cancelled, abandoned or failed to close", m.ID, sn.seq)
		}
		if sn.closedAt < 0 || false {
			// an in-progress Close may legitimately be visible once renamed; it must still be complete
		}
		if i > 0 {
			p := list[i-1]
			if p.Term < m.Term || (p.Term == m.Term && p.Index < m.Index) || (p.Term == m.Term && p.Index == m.Index && p.ID < m.ID) {
				return fmt.Sprintf("List is not newest-first: %s before %s", p.ID, m.ID)
			}
		}
		meta, rc, err := store.Open(m.ID)
		if err != nil {
			return fmt.Sprintf("listed snapshot %s (seq %d) does not open: %v", m.ID, sn.seq, err)
		}
		got, err := io.ReadAll(rc)
		_ = rc.Close()
		if err != nil {
			return fmt.Sprintf("listed snapshot %s read error: %v", m.ID, err)
		}
		if !bytes.Equal(got, c15Content(sn.seq, sn.size)) {
			return fmt.Sprintf("listed snapshot %s (seq %d) has %d bytes differing from the %d bytes written", m.ID, sn.seq, len(got), sn.size)
		}
		if meta.Index != sn.index || meta.Term != sn.term || meta.Size != int64(sn.size) {
			return fmt.Sprintf("listed snapshot %s metadata %d/%d size %d, written %d/%d size %d", m.ID, meta.Term, meta.Index, meta.Size, sn.term, sn.index, sn.size)
		}
	}
	// durable: every snapshot the store itself has not reaped (model of the
	// retention applied at each completed Close) must be listed, unless a
	// Close in progress may be reaping it right now
	for _, sn := range alive {
		if listed[sn.id] {
			continue
		}
		newer := 0
		for _, m := range list {
			if o := snaps[m.ID]; o != nil && c15Less(sn, o) {
				newer++
			}
		}
		if newer >= retain {
			continue
		}
		return fmt.Sprintf("snapshot %s (seq %d, %d/%d) whose Close returned nil before the crash point and which retention has not removed is not listed (image %s); listed: %v", sn.id, sn.seq, sn.term, sn.index, image, keysOf(listed))
	}
	return ""
}

func keysOf(m map[string]bool) []string {
	var out []string
	for k := range m {
		out = append(out, k)
	}
	sort.Strings(out)
	return out
}

func genC15(t *rapid.T) c15Prog {
	p := c15Prog{Retain: rapid.IntRange(1, 3).Draw(t, "retain")}
	n := rapid.IntRange(1, 6).Draw(t, "n")
	for i := 0; i < n; i++ {
		if i > 0 && rapid.IntRange(0, 4).Draw(t, "reopen") == 0 {
			p.Ops = append(p.Ops, c15Op{Op: "reopen", Retain: rapid.IntRange(0, 3).Draw(t, "newRetain")})
		}
		p.Ops = append(p.Ops, c15Op{Op: "create", Term: rapid.Uint64Range(1, 3).Draw(t, "term"), Index: rapid.Uint64Range(1, 6).Draw(t, "index"),
			Size: rapid.SampledFrom([]int{0, 1, 100, 4096, 5000, 70000}).Draw(t, "size"), Chunks: rapid.IntRange(1, 4).Draw(t, "chunks"),
			End: rapid.SampledFrom([]string{"close", "close", "close", "cancel", "abandon"}).Draw(t, "end")})
	}
	return p
}

func TestC15(t *testing.T) {
	r := rep.New("C15", "crash")
	r.Extra("test", "TestC15")
	defer r.Flush()
	if _, err := exec.LookPath("strace"); err != nil {
		r.Note("strace not available")
		t.Skip("strace not available: inconclusive")
	}
	self, _ := os.Executable()
	work, err := os.MkdirTemp("", "c15-")
	if err != nil {
		t.Fatal(err)
	}
	defer os.RemoveAll(work)
	images := 0
	caseNo := 0
	rapid.Check(t, func(rt *rapid.T) {
		if r.Frozen() {
			return
		}
		prog := genC15(rt)
		caseNo++
		c15Case(rt, r, work, self, prog, caseNo, &images)
	})
	r.Extra("images_checked", images)
}

// c15TB is what the case body needs from rapid.T / testing.T.
type c15TB interface {
	Fatalf(format string, args ...any)
	Skipf(format string, args ...any)
	Skip(args ...any)
}

// c15Case runs one generated history under strace and checks every crash
// point x image of it.
func c15Case(rt c15TB, r *rep.Report, work, self string, prog c15Prog, caseNo int, imagesOut *int) {
	images := 0
	defer func() { *imagesOut += images }()
	root := filepath.Join(work, fmt.Sprintf("case%d", caseNo))
	_ = os.MkdirAll(root, 0o755)
	defer os.RemoveAll(root)
	pf := filepath.Join(work, "prog.json")
	b, _ := json.Marshal(prog)
	_ = os.WriteFile(pf, b, 0o644)
	trace := filepath.Join(work, "trace.txt")
	cmd := exec.Command("strace", "-f", "-y", "-xx", "-s", "200000", "-o", trace,
		"-e", "trace=openat,write,fsync,fdatasync,rename,renameat,renameat2,unlink,unlinkat,mkdir,mkdirat,rmdir",
		self, "-test.run", "^TestC15Child$", "-test.count=1")
	cmd.Env = append(os.Environ(), "C15_DIR="+root, "C15_PROG="+pf, "VERIF_OUT="+work)
	if out, err := cmd.CombinedOutput(); err != nil {
		r.Class("child-failed", 1)
		rt.Skipf("child failed: %v %s", err, out[:min(len(out), 300)])
	}
	ops, err := parseStrace(trace, root)
	if err != nil || len(ops) == 0 {
		r.Class("trace-unreadable", 1)
		rt.Skip("no trace")
	}
	// snapshots from the markers
	snaps := map[string]*c15Snap{}
	bySeq := map[int]*c15Snap{}
	retainAt := make([]int, len(ops)+1)
	cur := prog.Retain
	for i, o := range ops {
		if o.Kind == "mark" {
			f := strings.Fields(o.Path)
			kv := map[string]string{}
			for _, x := range f[1:] {
				if p := strings.SplitN(x, "=", 2); len(p) == 2 {
					kv[p[0]] = p[1]
				}
			}
			seq, _ := strconv.Atoi(kv["seq"])
			switch f[0] {
			case "created":
				tm, _ := strconv.ParseUint(kv["term"], 10, 64)
				ix, _ := strconv.ParseUint(kv["index"], 10, 64)
				sz, _ := strconv.Atoi(kv["size"])
				sn := &c15Snap{seq: seq, id: kv["id"], term: tm, index: ix, size: sz, closedAt: -1}
				snaps[sn.id], bySeq[seq] = sn, sn
			case "close-ok":
				bySeq[seq].closedAt = i
			case "cancelled", "abandoned", "close-failed":
				bySeq[seq].doomed = true
			case "reopen":
				cur, _ = strconv.Atoi(kv["retain"])
			}
		}
		retainAt[i+1] = cur
	}
	retainAt[0] = prog.Retain
	// doomed-ness is known from the program, not from when the marker appears
	seq := 0
	for _, o := range prog.Ops {
		if o.Op == "create" {
			seq++
			if sn := bySeq[seq]; sn != nil && o.End != "close" {
				sn.doomed = true
			}
		}
	}
	// model of retention: the snapshots the store keeps after each completed Close
	aliveAt := func(k int) []*c15Snap {
		var alive []*c15Snap
		for i := 0; i < k && i < len(ops); i++ {
			o := ops[i]
			if o.Kind != "mark" || !strings.HasPrefix(o.Path, "close-ok") {
				continue
			}
			var sq int
			fmt.Sscanf(o.Path, "close-ok seq=%d", &sq)
			alive = append(alive, bySeq[sq])
			sort.Slice(alive, func(a, b int) bool { return c15Less(alive[b], alive[a]) })
			if r := retainAt[i]; len(alive) > r {
				alive = alive[:r]
			}
		}
		return alive
	}
	// enumerate crash points
	fs := newMFS(root)
	rootSnap := filepath.Join(root, "snapshots")
	var lastRootSync *mfs // namespace as of the last fsync of the snapshot root
	kinds := map[string]bool{}
	nontrivial := false
	for k := 0; k <= len(ops); k++ {
		if k > 0 {
			o := ops[k-1]
			if o.Kind == "fsync" && o.Path == rootSnap {
				fs.apply(o)
				lastRootSync = fs.clone()
			} else {
				fs.apply(o)
			}
			if o.Kind == "mark" {
				continue
			}
			kinds[o.Kind] = true
		}
		for _, image := range []string{"I1-all-kept", "I2-unsynced-data-lost", "I3-root-dir-ops-undone"} {
			img := filepath.Join(work, "img")
			_ = os.RemoveAll(img)
			src := fs
			if image == "I3-root-dir-ops-undone" {
				// root namespace as of its last fsync; contents of surviving directories as of now
				base := newMFS(root)
				base.dirs[rootSnap] = true
				if lastRootSync != nil {
					for d := range lastRootSync.dirs {
						if filepath.Dir(d) == rootSnap || d == rootSnap || d == root {
							base.dirs[d] = true
						}
					}
				}
				for d := range fs.dirs {
					if p := filepath.Dir(d); p != rootSnap && p != root && d != root && d != rootSnap && base.dirs[topUnder(d, rootSnap)] {
						base.dirs[d] = true
					}
				}
				for p, f := range fs.files {
					if top := topUnder(p, rootSnap); top != "" && base.dirs[top] && fs.dirs[top] {
						base.files[p] = f
					}
				}
				src = base
			}
			if err := src.materialise(root, img, image == "I2-unsynced-data-lost"); err != nil {
				rt.Skipf("materialise: %v", err)
			}
			images++
			if d := c15Check(img, retainAt[k], snaps, aliveAt(k), image); d != "" {
				detail := fmt.Sprintf("history %s; crash after syscall %d of %d (%s), image %s: %s", b, k, len(ops), opDesc(ops, k), image, d)
				path := fmt.Sprintf("%s/C15-%d.json", rep.ReplayDir(), os.Getpid())
				writeJSON(path, map[string]any{"property": "C15", "engine": "unit", "test": "TestC15Replay", "program": prog, "cut": k, "image": image, "detail": detail})
				r.Violate("C15", "R", "C15/"+c15Sig(d), detail, path)
				r.Freeze()
				rt.Fatalf("%s", detail)
			}
		}
		if k > 0 && ops[k-1].Kind != "mark" {
			nontrivial = true
		}
	}
	var ks []string
	for k := range kinds {
		ks = append(ks, k)
	}
	sort.Strings(ks)
	r.Case(nontrivial, rep.Hash(string(b)), ks...)
	if r.WantSample() {
		r.Sample(map[string]any{"history": prog, "syscalls": len(ops), "crash_points_x_images": (len(ops) + 1) * 3})
	}
}

// TestC15Replay re-checks every crash point of a saved history (crash mode) or
// re-applies a saved metadata/state corruption (corrupt mode).
func TestC15Replay(t *testing.T) {
	path := os.Getenv("VERIF_REPLAY")
	if path == "" {
		t.Skip("VERIF_REPLAY not set")
	}
	var f struct {
		Mode    string  `json:"mode"`
		Program c15Prog `json:"program"`
		File    string  `json:"file"`
		Size    int     `json:"size"`
		Bytes   []byte  `json:"corrupted_bytes"`
	}
	readJSON(t, path, &f)
	r := rep.New("C15", "replay")
	if f.Mode == "corrupt" {
		if d := c15CorruptRun(f.Size, f.File, f.Bytes, nil); d != "" {
			t.Fatalf("VIOLATION property=C15 replay=%s\n%s", path, d)
		}
		t.Log("REPLAY-OK property=C15")
		return
	}
	self, _ := os.Executable()
	work, err := os.MkdirTemp("", "c15r-")
	if err != nil {
		t.Fatal(err)
	}
	defer os.RemoveAll(work)
	n := 0
	c15Case(t, r, work, self, f.Program, 1, &n)
	if r.Violations() > 0 {
		t.Fatalf("VIOLATION property=C15 replay=%s", path)
	}
	t.Log("REPLAY-OK property=C15")
}

func topUnder(p, rootSnap string) string {
	if !strings.HasPrefix(p, rootSnap+"/") {
		return ""
	}
	rest := strings.TrimPrefix(p, rootSnap+"/")
	if i := strings.Index(rest, "/"); i >= 0 {
		rest = rest[:i]
	}
	return filepath.Join(rootSnap, rest)
}

func opDesc(ops []fsOp, k int) string {
	if k == 0 {
		return "start"
	}
	o := ops[k-1]
	return o.Kind + " " + filepath.Base(filepath.Dir(o.Path)) + "/" + filepath.Base(o.Path)
}

func c15Sig(d string) string {
	switch {
	case strings.Contains(d, "does not open"):
		return "R1/listed-snapshot-does-not-open"
	case strings.Contains(d, "differing"):
		return "R1/listed-snapshot-content-differs"
	case strings.Contains(d, "newest-first"), strings.Contains(d, "retain is"):
		return "R2/list-order-or-length"
	case strings.Contains(d, "is not listed"):
		return "R3/durable-snapshot-not-listed"
	case strings.Contains(d, "cancelled"), strings.Contains(d, "never created"):
		return "R4/unfinished-snapshot-listed"
	}
	return "R0/other"
}

// TestC15Corrupt: R5 — corrupted state or metadata never yields wrong bytes.
// c15CorruptRun: one snapshot of the given size is closed, file `which` of it is
// replaced by `corrupted` (mutate != nil: derived from the original bytes), and a
// fresh store is then used further. Returns a description of what is wrong.
func c15CorruptRun(size int, which string, corrupted []byte, mutate func(orig []byte) []byte) (detail string) {
	_, tr := raft.NewInmemTransport("")
	dir, _ := os.MkdirTemp("", "c15c-")
	defer os.RemoveAll(dir)
	store, err := raft.NewFileSnapshotStoreWithLogger(dir, 2, hclog.NewNullLogger())
	if err != nil {
		return ""
	}
	data := c15Content(1, size)
	sink, err := store.Create(1, 5, 2, raft.Configuration{}, 0, tr)
	if err != nil {
		return ""
	}
	_, _ = sink.Write(data)
	if err := sink.Close(); err != nil {
		return ""
	}
	p := filepath.Join(dir, "snapshots", sink.ID(), which)
	if mutate != nil {
		b, _ := os.ReadFile(p)
		corrupted = mutate(b)
	}
	_ = os.WriteFile(p, corrupted, 0o644)
	c15LastCorrupted = corrupted
	fresh, err := raft.NewFileSnapshotStoreWithLogger(dir, 2, hclog.NewNullLogger())
	if err != nil {
		return ""
	}
	list, _ := fresh.List()
	for _, m := range list {
		_, rc, err := fresh.Open(m.ID)
		if err != nil {
			continue // (checksum / metadata verified at Open: a damaged snapshot may be listed, it must not open with other bytes)
		}
		got, _ := io.ReadAll(rc)
		_ = rc.Close()
		if !bytes.Equal(got, data) {
			return fmt.Sprintf("Open succeeds and yields %d bytes that differ from what was written", len(got))
		}
	}
	// the store keeps working next to the damaged snapshot: what is closed
	// afterwards is listed and opens, retention keeps the newest
	for k := 0; k < 3; k++ {
		d2 := c15Content(10+k, 20)
		sk, err := fresh.Create(1, uint64(10+k), 3, raft.Configuration{}, 0, tr)
		if err != nil {
			return ""
		}
		_, _ = sk.Write(d2)
		if err := sk.Close(); err != nil {
			continue
		}
		again, _ := raft.NewFileSnapshotStoreWithLogger(dir, 2, hclog.NewNullLogger())
		l2, _ := again.List()
		found := false
		for _, m := range l2 {
			if m.ID == sk.ID() {
				if _, rc, err := again.Open(m.ID); err == nil {
					got, _ := io.ReadAll(rc)
					_ = rc.Close()
					found = bytes.Equal(got, d2)
				}
			}
		}
		if !found {
			return fmt.Sprintf("snapshot %s closed afterwards (Close returned nil) is not listed with its content; listed: %d entries", sk.ID(), len(l2))
		}
	}
	return ""
}

var c15LastCorrupted []byte

func TestC15Corrupt(t *testing.T) {
	r := rep.New("C15", "corrupt")
	r.Extra("test", "TestC15Corrupt")
	defer r.Flush()
	rapid.Check(t, func(rt *rapid.T) {
		if r.Frozen() {
			return
		}
		size := rapid.SampledFrom([]int{1, 10, 5000}).Draw(rt, "size")
		which := rapid.SampledFrom([]string{"state.bin", "meta.json"}).Draw(rt, "file")
		mode := rapid.SampledFrom([]string{"flip", "truncate", "append", "empty", "blank"}).Draw(rt, "mode")
		a, x := rapid.IntRange(0, 1<<20).Draw(rt, "at"), rapid.IntRange(1, 255).Draw(rt, "xor")
		detail := c15CorruptRun(size, which, nil, func(b []byte) []byte {
			switch mode {
			case "empty":
				return nil
			case "blank":
				return []byte(" \n")
			case "flip":
				b[a%len(b)] ^= byte(x)
			case "truncate":
				b = b[:a%len(b)]
			case "append":
				b = append(b, byte(x))
			}
			return b
		})
		r.Case(true, rep.Hash(which, mode, size, a, x), which+":"+mode)
		if detail != "" {
			detail = fmt.Sprintf("%s %s of a %d-byte snapshot: %s", mode, which, size, detail)
			path := fmt.Sprintf("%s/C15-corrupt-%d.json", rep.ReplayDir(), os.Getpid())
			writeJSON(path, map[string]any{"property": "C15", "engine": "unit", "test": "TestC15Replay", "mode": "corrupt", "file": which, "size": size, "corrupted_bytes": c15LastCorrupted, "detail": detail})
			sig := "C15/R5/corrupted-snapshot-opens-with-wrong-bytes"
			if strings.Contains(detail, "closed afterwards") {
				sig = "C15/R5/snapshot-closed-next-to-a-damaged-one-is-lost"
			}
			r.Violate("C15", "R5", sig, detail, path)
			r.Freeze()
			rt.Fatalf("%s", detail)
		}
	})
}
