package unit

// Small-scope exhaustive checks of the pure pieces behind C05 (commitment),
// C07 (nextConfiguration) and C11 (compaction arithmetic), driven through the
// tag-guarded wrappers of verif_export.go.

import (
	"fmt"
	"sort"
	"testing"

	"github.com/hashicorp/raft"

	"verif/harness/rep"
)

// ---------------------------------------------------------------------------
// C05(a): commitment

type refCommit struct {
	match  map[string]uint64
	commit uint64
	start  uint64
}

func newRefCommit(cfg raft.Configuration, start uint64) *refCommit {
	r := &refCommit{match: map[string]uint64{}, start: start}
	for _, s := range cfg.Servers {
		if s.Suffrage == raft.Voter {
			r.match[string(s.ID)] = 0
		}
	}
	return r
}

// recalc: commit = the largest index that a strict majority of voters has
// reached, if it is >= start and above the current commit index.
func (r *refCommit) recalc() bool {
	n := len(r.match)
	if n == 0 {
		return false
	}
	var best uint64
	for _, cand := range r.match {
		cnt := 0
		for _, m := range r.match {
			if m >= cand {
				cnt++
			}
		}
		if cnt*2 > n && cand > best {
			best = cand
		}
	}
	if best > r.commit && best >= r.start {
		r.commit = best
		return true
	}
	return false
}

func (r *refCommit) doMatch(s string, i uint64) bool {
	if prev, ok := r.match[s]; ok && i > prev {
		r.match[s] = i
		return r.recalc()
	}
	return false
}

func (r *refCommit) setCfg(cfg raft.Configuration) bool {
	old := r.match
	r.match = map[string]uint64{}
	for _, s := range cfg.Servers {
		if s.Suffrage == raft.Voter {
			r.match[string(s.ID)] = old[string(s.ID)]
		}
	}
	return r.recalc()
}

func cfgOf(suff []int) raft.Configuration {
	var c raft.Configuration
	for i, s := range suff {
		c.Servers = append(c.Servers, raft.Server{Suffrage: raft.ServerSuffrage(s), ID: raft.ServerID(fmt.Sprintf("s%d", i)), Address: raft.ServerAddress(fmt.Sprintf("a%d", i))})
	}
	return c
}

type c05op struct {
	Set  bool
	Srv  int
	Idx  uint64
	Suff []int
}

func (o c05op) String() string {
	if o.Set {
		return fmt.Sprintf("setConfiguration%v", o.Suff)
	}
	return fmt.Sprintf("match(s%d,%d)", o.Srv, o.Idx)
}

func TestC05Commitment(t *testing.T) {
	r := rep.New("C05", "commitment")
	r.Extra("test", "TestC05Commitment")
	defer r.Flush()
	r.Exhaustive = true
	maxN := rep.Scale(3, 4)
	depth := 3
	shard, shards := rep.Shard(), rep.Shards()
	caseNo := 0
	for n := 1; n <= maxN; n++ {
		total := 1
		for i := 0; i < n; i++ {
			total *= 3
		}
		for code := 0; code < total; code++ {
			suff := make([]int, n)
			for i, c := 0, code; i < n; i, c = i+1, c/3 {
				suff[i] = c % 3
			}
			for start := uint64(0); start <= 3; start++ {
				caseNo++
				if caseNo%shards != shard {
					continue
				}
				// alphabet for this configuration
				var ops []c05op
				for s := 0; s <= n; s++ { // s == n: a server that is not in the configuration
					for idx := uint64(0); idx <= 4; idx++ {
						ops = append(ops, c05op{Srv: s, Idx: idx})
					}
				}
				for i := 0; i < n; i++ {
					for v := 0; v < 3; v++ {
						if v != suff[i] {
							ns := append([]int(nil), suff...)
							ns[i] = v
							ops = append(ops, c05op{Set: true, Suff: ns})
						}
					}
				}
				seq := make([]c05op, 0, depth)
				var rec func(d int) bool
				rec = func(d int) bool {
					for _, op := range ops {
						seq = append(seq, op)
						// replay the sequence on a fresh pair
						real := raft.VerifNewCommitment(cfgOf(suff), start)
						ref := newRefCommit(cfgOf(suff), start)
						bad := ""
						var prev uint64
						for k, o := range seq {
							var wantNote bool
							if o.Set {
								real.SetConfiguration(cfgOf(o.Suff))
								wantNote = ref.setCfg(cfgOf(o.Suff))
							} else {
								real.Match(raft.ServerID(fmt.Sprintf("s%d", o.Srv)), o.Idx)
								wantNote = ref.doMatch(fmt.Sprintf("s%d", o.Srv), o.Idx)
							}
							got, note := real.CommitIndex(), real.Notified()
							if got != ref.commit || note != wantNote || got < prev {
								bad = fmt.Sprintf("config %v start %d ops %v: after step %d commit=%d notified=%v, reference commit=%d notified=%v", suff, start, seq, k, got, note, ref.commit, wantNote)
								break
							}
							prev = got
						}
						if bad != "" {
							path := fmt.Sprintf("%s/C05-commitment-%d.json", rep.ReplayDir(), shard)
							writeJSON(path, map[string]any{"property": "C05", "engine": "unit", "test": "TestC05Commitment", "detail": bad})
							r.Violate("C05", "R0", "C05/R0/commitment-differs-from-reference", bad, path)
							return false
						}
						nonvoter := false
						for i, s := range suff {
							if s != 0 && !op.Set && op.Srv == i {
								nonvoter = true
							}
						}
						r.CaseDistinct(true, map[bool]string{true: "match-by-nonvoter", false: "other"}[nonvoter])
						if d+1 < depth && !rec(d+1) {
							return false
						}
						seq = seq[:len(seq)-1]
					}
					return true
				}
				if !rec(0) {
					t.Errorf("C05 commitment violation (see report)")
					return
				}
				if r.WantSample() {
					r.Sample(map[string]any{"suffrages(0=Voter,1=Nonvoter,2=Staging)": suff, "startIndex": start, "alphabet": len(ops), "depth": depth})
				}
			}
		}
	}
}

// ---------------------------------------------------------------------------
// C07(a): nextConfiguration

type c07srv struct {
	present bool
	suff    raft.ServerSuffrage
	addr    int // 0,1: own addresses, 2: an address shared with the next server
}

func c07addr(i, a int) raft.ServerAddress {
	if a == 2 {
		return raft.ServerAddress("shared")
	}
	return raft.ServerAddress(fmt.Sprintf("addr%d-%d", i, a))
}

func c07build(ss []c07srv, order []int) raft.Configuration {
	var c raft.Configuration
	for _, i := range order {
		if ss[i].present {
			c.Servers = append(c.Servers, raft.Server{Suffrage: ss[i].suff, ID: raft.ServerID(fmt.Sprintf("id%d", i)), Address: c07addr(i, ss[i].addr)})
		}
	}
	return c
}

func refCheck(c raft.Configuration) bool {
	ids, addrs := map[raft.ServerID]bool{}, map[raft.ServerAddress]bool{}
	voters := 0
	for _, s := range c.Servers {
		if s.ID == "" || s.Address == "" || ids[s.ID] || addrs[s.Address] {
			return false
		}
		ids[s.ID], addrs[s.Address] = true, true
		if s.Suffrage == raft.Voter {
			voters++
		}
	}
	return voters > 0
}

// refNext is the reference written from the documentation of the commands:
// AddVoter makes the server a voter (updating the address of an existing
// voter), AddNonvoter adds a non-voter or updates the address of an existing
// server without taking its vote away... (it never demotes), DemoteVoter takes
// the vote away, RemoveServer removes, Promote turns Staging into Voter.
func refNext(cur raft.Configuration, curIdx uint64, cmd raft.ConfigurationChangeCommand, id raft.ServerID, addr raft.ServerAddress, prev uint64) (raft.Configuration, bool) {
	if prev > 0 && prev != curIdx {
		return raft.Configuration{}, false
	}
	out := raft.Configuration{Servers: append([]raft.Server(nil), cur.Servers...)}
	find := -1
	for i, s := range out.Servers {
		if s.ID == id {
			find = i
		}
	}
	switch cmd {
	case raft.AddVoter:
		if find >= 0 {
			out.Servers[find].Suffrage = raft.Voter
			out.Servers[find].Address = addr
		} else {
			out.Servers = append(out.Servers, raft.Server{Suffrage: raft.Voter, ID: id, Address: addr})
		}
	case raft.AddNonvoter:
		if find >= 0 {
			out.Servers[find].Address = addr // keeps whatever suffrage it has
		} else {
			out.Servers = append(out.Servers, raft.Server{Suffrage: raft.Nonvoter, ID: id, Address: addr})
		}
	case raft.DemoteVoter:
		if find >= 0 {
			out.Servers[find].Suffrage = raft.Nonvoter
		}
	case raft.RemoveServer:
		if find >= 0 {
			out.Servers = append(out.Servers[:find], out.Servers[find+1:]...)
		}
	case raft.Promote:
		if find >= 0 && out.Servers[find].Suffrage == raft.Staging {
			out.Servers[find].Suffrage = raft.Voter
		}
	}
	if !refCheck(out) {
		return raft.Configuration{}, false
	}
	return out, true
}

func voterSet(c raft.Configuration) map[raft.ServerID]bool {
	m := map[raft.ServerID]bool{}
	for _, s := range c.Servers {
		if s.Suffrage == raft.Voter {
			m[s.ID] = true
		}
	}
	return m
}

func sameConfig(a, b raft.Configuration) bool {
	if len(a.Servers) != len(b.Servers) {
		return false
	}
	for i := range a.Servers {
		if a.Servers[i] != b.Servers[i] {
			return false
		}
	}
	return true
}

func TestC07NextConfiguration(t *testing.T) {
	r := rep.New("C07", "nextconfiguration")
	r.Extra("test", "TestC07NextConfiguration")
	defer r.Flush()
	r.Exhaustive = true
	U := rep.Scale(3, 4)
	shard, shards := rep.Shard(), rep.Shards()
	// every assignment of (absent | suffrage x address) to U servers
	perSrv := 1 + 3*3
	total := 1
	for i := 0; i < U; i++ {
		total *= perSrv
	}
	cmds := []raft.ConfigurationChangeCommand{raft.AddVoter, raft.AddNonvoter, raft.DemoteVoter, raft.RemoveServer, raft.Promote}
	fail := func(detail string) {
		path := fmt.Sprintf("%s/C07-nextconfiguration-%d.json", rep.ReplayDir(), shard)
		writeJSON(path, map[string]any{"property": "C07", "engine": "unit", "test": "TestC07NextConfiguration", "detail": detail})
		r.Violate("C07", "R1", "C07/R1/nextConfiguration", detail, path)
	}
	for code := 0; code < total; code++ {
		if code%shards != shard {
			continue
		}
		ss := make([]c07srv, U)
		for i, c := 0, code; i < U; i, c = i+1, c/perSrv {
			v := c % perSrv
			if v > 0 {
				ss[i] = c07srv{present: true, suff: raft.ServerSuffrage((v - 1) / 3), addr: (v - 1) % 3}
			}
		}
		order := make([]int, U)
		for i := range order {
			order[i] = (i + code) % U // vary the order of servers in the list
		}
		cur := c07build(ss, order)
		if !refCheck(cur) {
			continue // not a valid starting configuration
		}
		const curIdx = 7
		for _, cmd := range cmds {
			for tid := 0; tid <= U; tid++ { // tid == U: a server outside the universe
				for ta := 0; ta < 3; ta++ {
					for _, prev := range []uint64{0, curIdx, curIdx - 1} {
						id, addr := raft.ServerID(fmt.Sprintf("id%d", tid)), c07addr(tid, ta)
						before := raft.Configuration{Servers: append([]raft.Server(nil), cur.Servers...)}
						got, err := raft.VerifNextConfiguration(cur, curIdx, cmd, id, addr, prev)
						want, ok := refNext(before, curIdx, cmd, id, addr, prev)
						desc := fmt.Sprintf("current {%v} %v(%s,%s) prevIndex=%d", cur.Servers, cmd, id, addr, prev)
						if !sameConfig(cur, before) {
							fail(desc + ": the input configuration was modified: " + fmt.Sprint(cur.Servers))
							t.Errorf("C07 violation")
							return
						}
						if (err == nil) != ok {
							fail(fmt.Sprintf("%s: error=%v, reference accepts=%v", desc, err, ok))
							t.Errorf("C07 violation")
							return
						}
						stale := prev == curIdx-1
						if stale && err == nil {
							fail(desc + ": stale prevIndex accepted")
							t.Errorf("C07 violation")
							return
						}
						if err == nil {
							if !sameConfig(got, want) {
								fail(fmt.Sprintf("%s: got {%v}, reference {%v}", desc, got.Servers, want.Servers))
								t.Errorf("C07 violation")
								return
							}
							// at most one voter differs
							a, b := voterSet(before), voterSet(got)
							diff := 0
							for k := range a {
								if !b[k] {
									diff++
								}
							}
							for k := range b {
								if !a[k] {
									diff++
								}
							}
							if diff > 1 || !refCheck(got) || raft.VerifCheckConfiguration(got) != nil {
								fail(fmt.Sprintf("%s: result {%v} changes %d voters / is not a valid configuration", desc, got.Servers, diff))
								t.Errorf("C07 violation")
								return
							}
							// no aliasing: mutating the result must not change the input
							for i := range got.Servers {
								got.Servers[i].Address = "mutated"
							}
							if !sameConfig(cur, before) {
								fail(desc + ": result aliases the input configuration")
								t.Errorf("C07 violation")
								return
							}
						}
						cls := "accepted"
						if err != nil {
							cls = "rejected"
						}
						r.CaseDistinct(err != nil || cmd != raft.Promote, cls)
						if r.WantSample() && err == nil && cmd == raft.DemoteVoter {
							r.Sample(map[string]any{"current": fmt.Sprint(before.Servers), "command": fmt.Sprintf("%v(%s,%s) prevIndex=%d", cmd, id, addr, prev), "result": fmt.Sprint(want.Servers)})
						}
					}
				}
			}
		}
	}
}

// ---------------------------------------------------------------------------
// C11(a): compaction arithmetic

type recStore struct {
	refStore
	deletes [][2]uint64
}

func (s *recStore) DeleteRange(min, max uint64) error {
	s.deletes = append(s.deletes, [2]uint64{min, max})
	return s.refStore.DeleteRange(min, max)
}

func TestC11Compaction(t *testing.T) {
	r := rep.New("C11", "compaction")
	r.Extra("test", "TestC11Compaction")
	defer r.Flush()
	r.Exhaustive = true
	maxLast := uint64(rep.Scale(12, 20))
	shard, shards := rep.Shard(), rep.Shards()
	n := 0
	for first := uint64(1); first <= 6; first++ {
		for last := first - 1; last <= maxLast; last++ { // last == first-1: empty log
			for snap := uint64(0); snap <= maxLast+2; snap++ {
				for trailing := uint64(0); trailing <= maxLast+2; trailing++ {
					n++
					if n%shards != shard {
						continue
					}
					st := &recStore{refStore: *newRefStore()}
					for i := first; i <= last; i++ {
						_ = st.refStore.StoreLog(mkLog(i, 0))
					}
					lastParam := last
					if last < first {
						lastParam = 0 // empty log
					}
					err := raft.VerifCompactLogsWithTrailing(st, snap, lastParam, trailing)
					// reference
					var wantDel bool
					var wantMax uint64
					if last >= first && last > trailing {
						wantMax = snap
						if last-trailing < wantMax {
							wantMax = last - trailing
						}
						wantDel = first <= wantMax
					}
					desc := fmt.Sprintf("log [%d,%d] snapshot %d trailing %d", first, last, snap, trailing)
					bad := ""
					switch {
					case err != nil:
						bad = fmt.Sprintf("%s: error %v", desc, err)
					case wantDel && (len(st.deletes) != 1 || st.deletes[0] != [2]uint64{first, wantMax}):
						bad = fmt.Sprintf("%s: deletes %v, reference deletes [%d,%d]", desc, st.deletes, first, wantMax)
					case !wantDel && len(st.deletes) != 0:
						bad = fmt.Sprintf("%s: deletes %v, reference deletes nothing", desc, st.deletes)
					}
					// what must hold whatever the reference says
					var left []uint64
					for i := range st.logs {
						left = append(left, i)
					}
					sort.Slice(left, func(i, j int) bool { return left[i] < left[j] })
					had := uint64(0)
					if last >= first {
						had = last - first + 1
					}
					keep := trailing
					if had < keep {
						keep = had
					}
					for i := first; i <= last && bad == ""; i++ {
						if _, ok := st.logs[i]; !ok && i > snap {
							bad = fmt.Sprintf("%s: entry %d above the snapshot was deleted", desc, i)
						}
					}
					if bad == "" && uint64(len(left)) < keep {
						bad = fmt.Sprintf("%s: %d entries left, at least %d must remain", desc, len(left), keep)
					}
					for i := 1; i < len(left) && bad == ""; i++ {
						if left[i] != left[i-1]+1 {
							bad = fmt.Sprintf("%s: log no longer contiguous: %v", desc, left)
						}
					}
					if bad != "" {
						path := fmt.Sprintf("%s/C11-compaction-%d.json", rep.ReplayDir(), shard)
						writeJSON(path, map[string]any{"property": "C11", "engine": "unit", "test": "TestC11Compaction", "detail": bad})
						r.Violate("C11", "R3", "C11/R3/compaction-arithmetic", bad, path)
						t.Errorf("C11 violation: %s", bad)
						return
					}
					inside := snap >= first && snap < last
					r.CaseDistinct(wantDel || inside, map[bool]string{true: "deletes", false: "no-op"}[wantDel])
					if r.WantSample() && wantDel && inside && trailing > 0 {
						r.Sample(map[string]any{"log": [2]uint64{first, last}, "snapshot": snap, "trailing": trailing, "deleted": st.deletes})
					}
				}
			}
		}
	}
}
