package cluster

import (
	"strings"
	"bytes"
	"errors"
	"fmt"
	"time"

	"github.com/hashicorp/raft"

	"verif/harness/sim"
)

// sample runs at every quiescent millisecond.
func (r *Runner) sample() {
	r.sampleCommit()
	r.sampleProfile()
	r.W.Mu.Lock()
	due, on := r.verifyAt != 0 && r.W.Now() >= r.verifyAt, r.verifyOn
	if due {
		r.verifyAt = 0
	}
	r.W.Mu.Unlock()
	if due {
		if in := r.liveByID(on); in != nil && in.R.State() == raft.Leader {
			r.doVerify(in)
			r.feat("verify-while-a-snapshot-is-in-flight")
		}
	}
}

// sampleCommit runs at every quiescent point between two delivery rounds
// (World.Round): every goroutine of every server is blocked, so state, term,
// commit index and log are one consistent cut.
func (r *Runner) sampleCommit() {
	w := r.W
	for i := range r.ids {
		in := r.live(i)
		if in == nil {
			continue
		}
		ci, li := in.R.CommitIndex(), in.R.LastIndex()
		w.Mu.Lock()
		st := r.perInst(in)
		if ci < st.lastCommit {
			w.ViolateLocked("C05", "R3", "C05/R3/commit-index-decreased", "%s commit index went from %d to %d", in.ID(), st.lastCommit, ci)
		}
		if ci > li {
			w.ViolateLocked("C05", "R3", "C05/R3/commit-index-above-last-index", "%s reports commit index %d above its last index %d", in.ID(), ci, li)
		}
		// C05/R2: a server that was leader of term T at the previous cut and
		// still is moved its commit index in between: that advance comes from
		// its own counting of matches, and may only land on an entry of term T.
		var lt uint64
		if in.R.State() == raft.Leader {
			lt = in.R.CurrentTerm()
		}
		if ci > st.lastCommit && lt != 0 && lt == st.leaderTerm {
			d := in.DiskLocked()
			if l, ok := d.Logs[ci]; ok && l.Term != lt {
				w.ViolateLocked("C05", "R2", "C05/R2/leader-commits-by-counting-an-entry-of-an-older-term",
					"%s, leader of term %d, moved its commit index %d -> %d while leader, but entry %d has term %d: no entry of term %d is committed yet; log: %s",
					in.ID(), lt, st.lastCommit, ci, ci, l.Term, lt, d.LogString())
			}
		}
		// C18/R2: LeaderCh holds the latest transition whatever the speed of the
		// NotifyCh consumer. At the first cut after a server stopped being leader
		// (it may be blocked handing "false" to a slow NotifyCh consumer) its
		// LeaderCh must not still say "true". (Read once per incarnation; the
		// end-of-run rule knows about it.)
		// (Not while a macro holds this server's main thread in a slow StoreLogs:
		// then the cut can fall between the state change and the clean-up.)
		slowDisk := r.busyDisk[i].Load() > w.Now()-10
		if st.leaderTerm != 0 && lt == 0 && in.NotifyCh != nil && !st.peeked && in.R.State() != raft.Shutdown && !slowDisk {
			st.peeked, st.peekStates = true, leadershipTransitions(in)
			select {
			case v := <-in.R.LeaderCh():
				st.peekedValue, st.peekedSomething = v, true
				if v {
					w.ViolateLocked("C18", "R2", "C18/R2/leaderch-still-true-after-leadership-was-lost",
						"%s/%d is %v (was Leader of term %d at the previous cut) but LeaderCh still holds true", in.ID(), in.Gen, in.R.State(), st.leaderTerm)
				}
			default:
			}
			r.feat("leaderch-read-right-after-step-down")
		}
		st.leaderTerm = lt
		w.O.CheckLatestCfg(in, in.R.GetConfiguration().Configuration())
		if ci > st.lastCommit {
			w.O.CommitRange(in, st.lastCommit+1, ci, fmt.Sprintf("CommitIndex()=%d on %s", ci, in.ID()))
			st.lastCommit = ci
		}
		w.Mu.Unlock()
	}
}

// leadershipTransitions counts gains and losses of leadership an incarnation has observed (caller holds W.Mu).
func leadershipTransitions(in *sim.Instance) int {
	n, was := 0, false
	for _, s := range in.States {
		if is := s.State == raft.Leader; is != was {
			n++
			was = is
		}
	}
	return n
}

type instState struct {
	lastCommit uint64
	leaderTerm uint64 // term in which the server was leader at the previous cut (0: was not)
	// LeaderCh read once in mid-run (C18/R2)
	peeked, peekedSomething, peekedValue bool
	peekStates                           int // leadership transitions seen at that moment
}

func (r *Runner) perInst(in *sim.Instance) *instState {
	if r.ist == nil {
		r.ist = map[*sim.Instance]*instState{}
	}
	s := r.ist[in]
	if s == nil {
		s = &instState{}
		r.ist[in] = s
	}
	return s
}

// judgeVerify: C09. Caller holds W.Mu.
func (r *Runner) judgeVerify(op *ClientOp) {
	w := r.W
	if op.err != nil {
		r.feat("verify-" + shortErr(op.Err))
		return
	}
	r.feat("verify-ok")
	in := op.inst
	T := op.termAtInvoke
	cfgNow, _ := sim.LatestCfgInDisk(in.DiskLocked(), false)
	// the voter set may change while the call is in progress: it is enough
	// that the quorum of one configuration in force during the call was met
	type verdict struct {
		ok, freshOK bool
		sig, detail string
	}
	judge := func(cfg raft.Configuration) verdict {
		voters := map[string]bool{}
		for _, s := range cfg.Servers {
			if s.Suffrage == raft.Voter {
				voters[string(s.ID)] = true
			}
		}
		quorum := len(voters)/2 + 1
		got, fresh := map[string]bool{}, map[string]bool{}
		nonvoterAck, removedAck := false, false
		for _, a := range w.O.Acks(in.ID()) {
			if !a.Success || a.Term != T || a.RecvSeq <= op.InvokeSeq || a.RecvSeq > op.ReturnSeq {
				continue
			}
			if w.O.NotMemberAt(in.ID(), a.Peer, a.RecvSeq, T) {
				// the leader had already removed this server when its answer came in
				removedAck = true
				continue
			}
			if !voters[a.Peer] {
				nonvoterAck = true
				continue
			}
			got[a.Peer] = true
			if a.AckSeq > op.InvokeSeq {
				fresh[a.Peer] = true
			}
		}
		self := 0
		if voters[in.ID()] {
			self = 1
		}
		v := verdict{ok: len(got)+self >= quorum, freshOK: len(fresh)+self >= quorum}
		if !v.ok {
			v.sig = "C09/R1/success-without-voter-majority"
			if nonvoterAck {
				v.sig = "C09/R1/acks-from-nonvoters-counted"
			}
			if removedAck {
				v.sig = "C09/R1/acknowledgement-of-a-removed-server-counted"
			}
			if self == 0 {
				v.sig = "C09/R1/leader-not-a-voter-counts-itself"
			}
			v.detail = fmt.Sprintf("voters {%v} quorum %d; voters that acknowledged inside the call window: %v (+self=%d); non-voter acks seen: %v; answers of servers the leader had already removed: %v", keys(voters), quorum, keys(got), self, nonvoterAck, removedAck)
		} else if !v.freshOK {
			v.sig = "C09/R3/counted-acknowledgements-made-before-the-call"
			v.detail = fmt.Sprintf("only %v acknowledged (handled a request) after the call was made (quorum %d, +self=%d); %v answered in the window", keys(fresh), quorum, self, keys(got))
		}
		return v
	}
	a, b := judge(cfgNow), judge(op.cfgAtInvoke)
	switch {
	case a.ok && a.freshOK, b.ok && b.freshOK:
	case a.ok || b.ok:
		v := a
		if !a.ok {
			v = b
		}
		w.ViolateLocked("C09", "R3", v.sig, "VerifyLeader #%d on %s (term %d) returned nil; %s", op.ID, in.ID(), T, v.detail)
	default:
		w.ViolateLocked("C09", "R1", a.sig, "VerifyLeader #%d on %s (term %d) returned nil; configuration at return: %s; configuration at invoke: %s", op.ID, in.ID(), T, a.detail, b.detail)
	}
	for _, l := range w.O.Leaders() {
		if l.Term > T && l.Seq < op.InvokeSeq && l.Srv != in.ID() {
			w.ViolateLocked("C09", "R2", "C09/R2/success-on-superseded-leader", "VerifyLeader #%d on %s (term %d) returned nil although %s had become leader of term %d before the call", op.ID, in.ID(), T, l.Srv, l.Term)
		}
	}
}

func keys(m map[string]bool) []string {
	var out []string
	for k := range m {
		out = append(out, k)
	}
	sortStrings(out)
	return out
}

func sortStrings(a []string) {
	for i := 1; i < len(a); i++ {
		for j := i; j > 0 && a[j] < a[j-1]; j-- {
			a[j], a[j-1] = a[j-1], a[j]
		}
	}
}

// ---------------------------------------------------------------------------
// user restore (C20)

type restoreRec struct {
	op      *ClientOp
	state   sim.FSMState
	metaIdx uint64
	// burned index at which the supplied state had been written when the call
	// returned (0: not written by then)
	writtenAtReturn uint64
	returned        bool
}

func (r *Runner) doUserRestore(in *sim.Instance, n int, where int) {
	last := in.R.LastIndex()
	var idx uint64
	switch where % 3 {
	case 0:
		idx = last / 2
	case 1:
		idx = last
	default:
		idx = last + 5
	}
	if idx == 0 {
		idx = 1
	}
	var st sim.FSMState
	if n <= 0 {
		n = 3
	}
	r.restoreSeq++
	for k := 0; k < n; k++ {
		st.Fold(uint64(k+1), 1, 1<<40+uint64(r.restoreSeq)<<16+uint64(k))
	}
	data := sim.EncodeState(st)
	meta := &raft.SnapshotMeta{Version: 1, ID: "user", Index: idx, Term: 1, Size: int64(len(data))}
	op := r.newOp("restore", in, 0, fmt.Sprintf("meta.index=%d last=%d", idx, last))
	rec := &restoreRec{op: op, state: st, metaIdx: idx}
	r.W.Mu.Lock()
	r.restores = append(r.restores, rec)
	r.W.O.ExpectUserSnapshot(st.Hash)
	r.W.Mu.Unlock()
	go func() {
		err := in.R.Restore(meta, bytes.NewReader(data), 0)
		r.finish(op, err, 0, nil)
	}()
	r.feat("user-restore")
}

// ---------------------------------------------------------------------------
// quiet phase: C12 convergence

func (r *Runner) quietPhase() {
	w := r.W
	w.Mu.Lock()
	r.quiet = true
	r.quietFlag.Store(true)
	r.cut = map[[2]string]bool{}
	w.Net.ReleaseHeld()
	for _, rec := range r.notif {
		rec.delay = 0
	}
	r.isolated = map[string]*isoRec{}
	for _, rj := range r.rejoins {
		if w.Now() < rj.at+int64(10*r.maxHB()/time.Millisecond) {
			rj.checked = true
		}
	}
	faultSpan := w.Now()
	w.EvLocked(sim.Event{Kind: "quiet"})
	w.Mu.Unlock()
	divergent := false
	for pass := 0; pass < 2; pass++ {
		r.reapDead()
		for i := range r.ids {
			if r.live(i) == nil {
				r.restart(i)
				divergent = true
			}
		}
		w.Advance(5*time.Millisecond, nil) // let calls issued at the very end (Shutdown) take effect
	}
	w.Mu.Lock()
	w.O.Quiet = true
	w.Mu.Unlock()
	if divergent {
		r.feat("quiet:restarted-server")
	}
	E := r.maxHB()
	K := time.Duration(faultSpan) * time.Millisecond
	if K > 10240*time.Millisecond {
		K = 10240 * time.Millisecond
	}
	K += 200 * time.Millisecond
	quietStart := w.Now()
	if r.P.QuietMs > 0 {
		w.Advance(time.Duration(r.P.QuietMs)*time.Millisecond, r.sample)
	} else {
		w.Advance(30*E+K, r.sample)
	}
	if r.stopEarly() {
		return
	}
	// R1: exactly one leader, and it accepts a write
	var leaders []int
	for i := range r.ids {
		if in := r.live(i); in != nil && in.R.State() == raft.Leader {
			leaders = append(leaders, i)
		}
	}
	if len(leaders) != 1 {
		sig := fmt.Sprintf("C12/R1/%d-leaders-after-quiet-period", len(leaders))
		if len(leaders) == 0 {
			if d := r.diagnoseNoLeader(); d != "" {
				sig = "C12/R1/no-leader:" + d
			}
		}
		w.Violate("C12", "R1", sig,
			"%d ms after faults stopped (30 election timeouts of %v + back-off allowance %v) the cluster has %d leaders: %s", w.Now()-quietStart, E, K, len(leaders), r.describe())
		return
	}
	L := r.live(leaders[0])
	payload := w.NewPayload()
	op := r.newOp("apply", L, payload, "quiet-probe")
	go func() {
		f := L.R.Apply(sim.EncodePayload(payload, 0), 0)
		err := f.Error()
		var idx uint64
		var resp any
		if err == nil {
			idx, resp = f.Index(), f.Response()
		}
		r.finish(op, err, idx, resp)
	}()
	w.Advance(10*E+K, r.sample)
	if r.stopEarly() {
		return
	}
	w.Mu.Lock()
	done, err := op.Done, op.err
	w.Mu.Unlock()
	if !done || err != nil {
		sig := "C12/R1/no-write-accepted-after-quiet-period"
		if d := r.diagnoseNoLeader(); d != "" {
			sig = "C12/R1/no-leader:" + d
		}
		w.Violate("C12", "R1", sig, "write on leader %s %d ms after faults stopped: done=%v err=%v; %s", L.ID(), w.Now()-quietStart, done, err, r.describe())
		return
	}
	// R2: every running member of the leader's configuration reaches its state
	lagging := r.laggards(L)
	if len(lagging) > 0 {
		behind := uint64(0)
		for _, i := range lagging {
			if in := r.live(i); in != nil {
				if d := L.R.LastIndex() - minU(in.R.AppliedIndex(), L.R.LastIndex()); d > behind {
					behind = d
				}
			}
		}
		A := time.Duration(behind/uint64(r.P.MaxAppend)+2) * (10*time.Millisecond + 2*time.Millisecond)
		w.Advance(A+5*E, r.sample)
		lagging = r.laggards(L)
	}
	r.atRest = len(lagging) == 0
	if len(lagging) > 0 {
		w.Violate("C12", "R2", "C12/R2/member-not-caught-up-after-quiet-period", "%d ms after faults stopped servers %v have not reached the leader's (%s) state: %s", w.Now()-quietStart, lagging, L.ID(), r.describe())
	}
}

func minU(a, b uint64) uint64 {
	if a < b {
		return a
	}
	return b
}

// laggards lists live members of L's configuration whose FSM differs from L's.
func (r *Runner) laggards(L *sim.Instance) []int {
	r.W.Mu.Lock()
	cfg, _ := sim.LatestCfgInDisk(L.DiskLocked(), false)
	r.W.Mu.Unlock()
	member := map[string]bool{}
	for _, s := range cfg.Servers {
		member[string(s.ID)] = true
	}
	want := L.FSM.GetState()
	var out []int
	for i, id := range r.ids {
		in := r.live(i)
		if in == nil || !member[id] || in == L {
			continue
		}
		got := in.FSM.GetState()
		if got.Hash != want.Hash || got.Count != want.Count || in.R.AppliedIndex() < L.R.CommitIndex() {
			out = append(out, i)
		}
	}
	return out
}

func (r *Runner) describe() string {
	var b bytes.Buffer
	for i, id := range r.ids {
		in := r.inst(i)
		if in == nil {
			fmt.Fprintf(&b, "[%s down] ", id)
			continue
		}
		st := in.FSM.GetState()
		r.W.Mu.Lock()
		disk := in.DiskLocked().LogString()
		r.W.Mu.Unlock()
		if len(disk) > 300 {
			disk = disk[:140] + " ... " + disk[len(disk)-140:]
		}
		fmt.Fprintf(&b, "[%s %v term=%d last=%d commit=%d applied=%d fsm=%d/%x log: %s] ", id, in.R.State(), in.R.CurrentTerm(), in.R.LastIndex(), in.R.CommitIndex(), in.R.AppliedIndex(), st.Count, st.Hash&0xffff, disk)
	}
	return b.String()
}

// ---------------------------------------------------------------------------
// end-of-run rules

func (r *Runner) finalChecks() {
	w := r.W
	w.Mu.Lock()
	defer w.Mu.Unlock()
	// C17: every future resolved (the run lasted far longer than the bound)
	for _, op := range r.Ops {
		if op.Done || op.inst.DeadLocked() {
			continue
		}
		age := w.Now() - op.InvokeMs
		if age < int64(r.futureBound()/time.Millisecond) {
			continue
		}
		st := op.inst.R.State()
		rule, sig := "R1", fmt.Sprintf("C17/R1/%s-future-never-resolves-on-running-%s", op.Kind, st)
		if st == raft.Shutdown {
			rule, sig = "R3", fmt.Sprintf("C17/R3/%s-future-stranded-by-shutdown", op.Kind)
		}
		w.ViolateLocked("C17", rule, sig, "%s #%d on %s invoked at %d ms is unresolved %d ms later (server state %v)", op.Kind, op.ID, op.Srv, op.InvokeMs, age, st)
	}
	// C20/R5: a refused Restore does nothing. A call answered with
	// ErrAbortedByRestore while every Restore under way on that server was
	// refused before it started (membership change uncommitted, leadership
	// transfer in progress, not the leader) was aborted by a call that never ran.
	for _, op := range r.Ops {
		if !op.Done || !errors.Is(op.err, raft.ErrAbortedByRestore) {
			continue
		}
		overlapping, refused := 0, 0
		var by *ClientOp
		for _, rec := range r.restores {
			ro := rec.op
			// (the caller of an aborted call may be scheduled after the caller of
			// the Restore that aborted it: overlap is judged on the clock)
			if ro.inst != op.inst || ro.InvokeMs > op.ReturnMs || (ro.Done && ro.ReturnMs < op.ReturnMs) {
				continue
			}
			overlapping++
			if !ro.Done || ro.err == nil {
				continue
			}
			written := w.O.UserSnapshotWrittenAt(rec.state.Hash) != 0
			msg := ro.err.Error()
			if strings.Contains(msg, "cannot restore snapshot now") || (!written && (errors.Is(ro.err, raft.ErrNotLeader) || errors.Is(ro.err, raft.ErrLeadershipTransferInProgress))) {
				refused++
				by = ro
			}
		}
		if overlapping > 0 && refused == overlapping {
			w.ViolateLocked("C20", "R5", "C20/R5/refused-restore-aborted-calls-in-flight", "%s #%d on %s was answered ErrAbortedByRestore, but the only Restore under way (#%d) was refused: %q", op.Kind, op.ID, op.Srv, by.ID, by.Err)
		}
	}
	// C20/R3: aborted calls leave no trace (in the final, converged state of
	// the members of the leader's configuration)
	member := map[string]bool{}
	for _, id := range r.ids {
		if in := w.Servers[id].Inst; in != nil && !in.DeadLocked() && in.R != nil && in.R.State() == raft.Leader {
			cfg, _ := sim.LatestCfgInDisk(in.DiskLocked(), false)
			for _, s := range cfg.Servers {
				member[string(s.ID)] = true
			}
		}
	}
	for _, op := range r.Ops {
		if !r.atRest {
			break
		}
		if op.Kind != "apply" || !op.Done || !errors.Is(op.err, raft.ErrAbortedByRestore) {
			continue
		}
		r.feat("aborted-by-restore")
		// the claim is made "after Restore returns nil": the restore that
		// aborted this call must have completed (a leader that crashes or is
		// deposed before its restore commits leaves the aborted entries in
		// the logs, and the next leader may commit them)
		confirmed := false
		for _, ro := range r.Ops {
			if ro.Kind == "restore" && ro.Done && ro.err == nil && ro.inst == op.inst && ro.InvokeSeq <= op.ReturnSeq && op.ReturnSeq <= ro.ReturnSeq {
				confirmed = true
			}
		}
		if !confirmed {
			r.feat("aborted-by-a-restore-that-did-not-complete")
			continue
		}
		for _, id := range r.ids {
			in := w.Servers[id].Inst
			if in == nil || in.DeadLocked() || !member[id] {
				continue
			}
			for _, p := range in.FSM.State.Payloads {
				if p == op.Payload {
					w.ViolateLocked("C20", "R3", "C20/R3/aborted-command-in-final-state", "apply #%d payload %d returned ErrAbortedByRestore but is part of the final FSM state of %s", op.ID, op.Payload, id)
				}
			}
		}
	}
	r.finalProfile()
}

// futureBound: Bf = 10 x max election timeout + 2 x RPC time-out + K.
func (r *Runner) futureBound() time.Duration {
	return 10*2*r.maxHB() + 2*r.W.Net.RPCTimeout + 10240*time.Millisecond + 500*time.Millisecond
}

// diagnoseNoLeader names the shape of a leaderless quiet cluster when it is a
// recognisable one, so that a known finding is matched by its cause and any
// other leaderless outcome is still reported.
func (r *Runner) diagnoseNoLeader() string {
	w := r.W
	w.Mu.Lock()
	defer w.Mu.Unlock()
	type lt struct{ term, idx uint64 }
	last := map[string]lt{}
	var best lt
	for _, id := range r.ids {
		in := w.Servers[id].Inst
		if in == nil || in.DeadLocked() {
			continue
		}
		d := in.DiskLocked()
		var l lt
		if li := d.Last(); li > 0 {
			l = lt{d.Logs[li].Term, li}
		}
		if sn := d.NewestSnap(); sn != nil && sn.Meta.Index > l.idx {
			l = lt{sn.Meta.Term, sn.Meta.Index}
		}
		last[id] = l
		if l.term > best.term || (l.term == best.term && l.idx > best.idx) {
			best = l
		}
	}
	// a server without pre-vote whose term runs ahead of everybody else's and
	// whose log is behind: it cannot win, every leader that contacts it steps
	// down (without adopting its term), and its own vote requests are refused
	// while the others know a leader.
	var maxOther uint64
	for _, id := range r.ids {
		// (the servers that could win: the ones holding the most up-to-date log;
		// a stale server dragged to the disruptor's term by its vote requests
		// does not count)
		if in := w.Servers[id].Inst; in != nil && !in.DeadLocked() && !in.Conf.PreVoteDisabled && last[id] == best {
			if t := in.R.CurrentTerm(); t > maxOther {
				maxOther = t
			}
		}
	}
	for _, id := range r.ids {
		in := w.Servers[id].Inst
		if in == nil || in.DeadLocked() || !in.Conf.PreVoteDisabled {
			continue
		}
		if in.R.CurrentTerm() > maxOther && last[id] != best {
			return "server-without-pre-vote-holds-a-higher-term-and-a-stale-log-and-deposes-every-leader"
		}
	}
	// electability: can any live server collect a quorum of its own latest
	// configuration, given every peer's log and every peer's own view of the
	// membership? (raft refuses candidates that are not voters in the
	// receiver's latest configuration, and candidates with a staler log)
	type view struct {
		voters map[string]bool
		cfgIdx uint64
	}
	views := map[string]view{}
	for _, id := range r.ids {
		in := w.Servers[id].Inst
		if in == nil || in.DeadLocked() {
			continue
		}
		cfg, ci := sim.LatestCfgInDisk(in.DiskLocked(), false)
		v := view{voters: map[string]bool{}, cfgIdx: ci}
		for _, s := range cfg.Servers {
			if s.Suffrage == raft.Voter {
				v.voters[string(s.ID)] = true
			}
		}
		views[id] = v
	}
	anyElectable, unrecognised := false, false
	for c, cv := range views {
		if !cv.voters[c] {
			continue // does not campaign
		}
		support := 0
		for v := range cv.voters {
			pv, live := views[v]
			if !live {
				continue
			}
			lc, lv := last[c], last[v]
			upToDate := lc.term > lv.term || (lc.term == lv.term && lc.idx >= lv.idx)
			switch {
			case v == c:
				support++
			case !upToDate:
			case len(pv.voters) > 0 && !pv.voters[c]:
				unrecognised = true
			default:
				support++
			}
		}
		if support >= len(cv.voters)/2+1 {
			anyElectable = true
		}
	}
	if !anyElectable && unrecognised {
		return "no-server-electable:a-needed-voter-does-not-recognise-the-candidate-as-voter-in-its-own-older-configuration"
	}
	holders, stuck := 0, 0
	for _, id := range r.ids {
		in := w.Servers[id].Inst
		if in == nil || in.DeadLocked() || last[id] != best {
			continue
		}
		holders++
		cfg, ci := sim.LatestCfgInDisk(in.DiskLocked(), false)
		voter := false
		for _, s := range cfg.Servers {
			if string(s.ID) == id && s.Suffrage == raft.Voter {
				voter = true
			}
		}
		// not a voter in its own latest, uncommitted configuration: it never
		// campaigns, and refuses everybody else as less up to date
		if !voter && ci > in.R.CommitIndex() {
			stuck++
		}
	}
	if holders > 0 && holders == stuck {
		return "most-up-to-date-server-removed-itself-in-an-uncommitted-configuration-and-never-campaigns"
	}
	return ""
}
