// Package cluster is engine E-cluster: N real raft servers in a synctest
// bubble driven by a generated program (actions + fault schedule).
package cluster

import (
	"encoding/json"
	"fmt"
	"strings"
)

// Program is one generated case: cluster shape, knobs, actions and the
// schedule tape. It is drawn up front as a value so that it can be saved,
// replayed and minimised as a whole.
type Program struct {
	N         int      `json:"n"`
	Suffrage  []int    `json:"suffrage"` // 0 voter, 1 nonvoter
	Flavour   []int    `json:"flavour"`  // sim.Flavour per server
	Batching  []bool   `json:"batching"`
	ConfStore []bool   `json:"confstore"`
	NoPreVote []bool   `json:"noprevote"`
	HBms      []int    `json:"hb_ms"` // heartbeat = election timeout per server
	LeaseDiv  int      `json:"lease_div"`
	MaxAppend int      `json:"max_append"`
	Trailing  uint64   `json:"trailing"`
	SnapThr   uint64   `json:"snap_threshold"`
	SnapIntMs int      `json:"snap_interval_ms"`
	BatchCh   bool     `json:"batch_apply_ch"`
	ShutRm    bool     `json:"shutdown_on_remove"`
	Pipeline  bool     `json:"pipeline"`
	HBFast    bool     `json:"hb_fast"`
	RCL       bool     `json:"restore_committed_logs"`
	RPCms     int      `json:"rpc_timeout_ms"`
	Actions   []Action `json:"actions"`
	Tape      []byte   `json:"tape"`
	Lossy     bool     `json:"lossy"` // tape governs message fates from the start
	QuietMs   int      `json:"quiet_ms"`
	Proto     []int    `json:"protocol_version,omitempty"` // per server: 0 = current (3), 2 = the previous protocol version
	ApplyMs   []int    `json:"apply_ms,omitempty"`         // per server: FSM.Apply/ApplyBatch takes this long while faults are allowed (a slow state machine)
	LatencyMs int      `json:"latency_ms,omitempty"`       // every message takes 1..LatencyMs ms (0: instantaneous)
	Profile   string   `json:"profile"`
}

// Action is one step of a program. Dt is the virtual time (ms) that passes
// before the action executes.
type Action struct {
	Op  string `json:"op"`
	Dt  int    `json:"dt"`
	Srv int    `json:"srv"`           // target server index; -1 = current leader, -2 = some follower
	N   int    `json:"n,omitempty"`   // burst size / op ordinal / misc
	Arg int    `json:"arg,omitempty"` // misc
	Set []int  `json:"set,omitempty"` // server set (partition side)
}

func (a Action) String() string {
	s := fmt.Sprintf("+%dms %s", a.Dt, a.Op)
	if a.Srv != 0 || a.Op == "crash" || a.Op == "restart" || a.Op == "isolate" {
		s += fmt.Sprintf(" srv=%d", a.Srv)
	}
	if a.N != 0 {
		s += fmt.Sprintf(" n=%d", a.N)
	}
	if a.Arg != 0 {
		s += fmt.Sprintf(" arg=%d", a.Arg)
	}
	if len(a.Set) > 0 {
		s += fmt.Sprintf(" set=%v", a.Set)
	}
	return s
}

func (p *Program) String() string {
	var b strings.Builder
	fmt.Fprintf(&b, "n=%d suffrage=%v flavour=%v hb=%v maxappend=%d trailing=%d snapthr=%d pipeline=%v lossy=%v latency=%d profile=%s\n", p.N, p.Suffrage, p.Flavour, p.HBms, p.MaxAppend, p.Trailing, p.SnapThr, p.Pipeline, p.Lossy, p.LatencyMs, p.Profile)
	for _, a := range p.Actions {
		b.WriteString("  " + a.String() + "\n")
	}
	return b.String()
}

func (p *Program) JSON() []byte {
	b, _ := json.Marshal(p)
	return b
}

// Brief is a compact rendering for evidence samples.
func (p *Program) Brief() map[string]any {
	acts := make([]string, 0, len(p.Actions))
	for _, a := range p.Actions {
		acts = append(acts, a.String())
	}
	return map[string]any{"servers": p.N, "suffrage": p.Suffrage, "flavour": p.Flavour, "hb_ms": p.HBms, "max_append": p.MaxAppend, "trailing": p.Trailing,
		"snap_threshold": p.SnapThr, "pipeline": p.Pipeline, "lossy": p.Lossy, "profile": p.Profile, "actions": acts}
}
