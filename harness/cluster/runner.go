package cluster

import (
	"errors"
	"fmt"
	"io"
	"os"
	"sort"
	"strings"
	"sync"
	"sync/atomic"
	"time"

	"github.com/hashicorp/raft"

	"verif/harness/sim"
)

// ClientOp is one client call and its outcome.
type ClientOp struct {
	ID        int    `json:"id"`
	Kind      string `json:"kind"`
	Srv       string `json:"srv"`
	Gen       int    `json:"gen"`
	Payload   uint64 `json:"payload,omitempty"`
	InvokeMs  int64  `json:"invoke_ms"`
	ReturnMs  int64  `json:"return_ms"`
	InvokeSeq int    `json:"invoke_seq"`
	ReturnSeq int    `json:"return_seq"`
	Done      bool   `json:"done"`
	Err       string `json:"err,omitempty"`
	Index     uint64 `json:"index,omitempty"`
	Arg       string `json:"arg,omitempty"`

	err          error
	resp         any
	ackedBefore  uint64 // highest index acknowledged to anybody before invoke
	cmdBefore    uint64 // highest committed command index known before invoke
	termAtInvoke uint64
	cfgAtInvoke  raft.Configuration
	inst         *sim.Instance
	orphaned     bool // the server crashed while the call was in flight: outcome unknown
	prevIndex    uint64 // membership calls: the prevIndex named (0: none)
	flagged      bool
}

// Runner executes one Program.
type Runner struct {
	P   *Program
	W   *sim.World
	ids []string

	Ops      []*ClientOp // guarded by W.Mu
	maxAcked uint64
	failed   map[uint64]string // payloads whose call definitely failed -> error

	tapePos        int
	cut            map[[2]string]bool
	refuse         bool // cuts fail fast instead of black-holing
	lossy          bool
	flakyReads     map[string]*flakyRead // server id -> window of failing log reads
	verifyOnIS     int                   // >0: when the next InstallSnapshot request goes out, call VerifyLeader on its sender that many ms (minus one) later
	verifyAt       int64                 // virtual ms at which that call is due (0: none)
	verifyOn       string                // the sender
	busyDisk       [16]atomic.Int64      // per server: StoreLogs takes 5 ms until this instant (macro busydisk)
	busyFSM        [16]atomic.Int64      // per server: its FSM takes >= 4 ms per call until this instant (macro snapcfg)
	quietFlag      atomic.Bool           // mirror of quiet, readable without W.Mu (FSM goroutines)
	slowISResp     int                   // id of the InstallSnapshot exchange whose response is delayed until slowISUntil
	slowISUntil    int64
	holdISms       int    // >0: the next InstallSnapshot request is held that long in the network (staleis macro)
	heldISFrom     string // its sender, once seen
	heldISUntil    int64
	lateCopyISms   int    // >0: the next InstallSnapshot request that is delivered is delivered a second time that many ms later (latesnapshot macro)
	lateCopyFrom   string // its sender, once seen
	lateCopyDue    int64
	slowAckFrom    string // its answers to AppendEntries / heartbeats take slowAckMs longer (removeverify macro)
	slowAckMs      int
	healEpoch      atomic.Int64 // incremented whenever links are restored: claims about 'a server that stays cut off' end there
	dropAppendAcks bool // acknowledgements of AppendEntries that carry entries are lost (inheritedtail macro)
	aeBudget       map[string]int // per sender: that many AppendEntries carrying entries get through to each receiver, the rest are lost; absent = no limit (figure8 macro)
	aeUsed         map[string]int // "from>to" -> requests let through so far
	quiet          bool
	faults         []*faultSpec
	Feat           map[string]int
	lastFaultMs    int64
	Log            []string
	opts           RunOpts
	notif          map[*sim.Instance]*notifyRec
	isoTerm        map[string]uint64
	stop           bool
	ist            map[*sim.Instance]*instState
	restores       []*restoreRec
	restoreSeq     int
	wall0          int64
	wallBudget     time.Duration
	Aborted        string
	leaseCuts      []*leaseCut
	isolated       map[string]*isoRec
	rejoins        []*rejoinRec
	atRest         bool
	featMu         sync.Mutex
}

type RunOpts struct {
	Debug bool
}

type faultSpec struct {
	srv   string
	site  string // substring of op kind@site ("" = any)
	nth   int    // the nth matching operation from now
	dec   sim.Decision
	seen  int
	fired bool
}

func (r *Runner) feat(k string) {
	r.featMu.Lock()
	r.Feat[k]++
	r.featMu.Unlock()
}

func (r *Runner) logf(format string, a ...any) {
	if r.opts.Debug {
		fmt.Printf("[%6dms] "+format+"\n", append([]any{r.W.Now()}, a...)...)
	}
}

func NewRunner(p *Program, o RunOpts) *Runner {
	return &Runner{P: p, cut: map[[2]string]bool{}, Feat: map[string]int{}, failed: map[uint64]string{}, opts: o,
		notif: map[*sim.Instance]*notifyRec{}, isoTerm: map[string]uint64{}, isolated: map[string]*isoRec{}}
}

func (r *Runner) nodeOpts(i int) sim.NodeOpts {
	p := r.P
	var logw io.Writer
	if os.Getenv("DEBUGSRV") == r.ids[i] {
		logw = os.Stdout
	}
	var d time.Duration
	if i < len(p.ApplyMs) && p.ApplyMs[i] > 0 {
		d = time.Duration(p.ApplyMs[i]) * time.Millisecond
	}
	slow := func() time.Duration {
		if r.quietFlag.Load() {
			return 0 // the convergence bounds of the quiet phase are stated for an FSM that keeps up
		}
		if until := r.busyFSM[i].Load(); until > 0 && r.W.Now() < until {
			return max(d, 4*time.Millisecond) // a macro keeps this state machine busy for a moment
		}
		return d
	}
	return sim.NodeOpts{
		ApplyDelayFn: slow,
		StoreDelayFn: func() time.Duration {
			if until := r.busyDisk[i].Load(); until > 0 && r.W.Now() < until && !r.quietFlag.Load() {
				return 5 * time.Millisecond
			}
			return 0
		},
		LogOutput:    logw,
		Batching:     p.Batching[i], ConfStore: p.ConfStore[i], Pipeline: p.Pipeline, HBFast: p.HBFast, NoPreVote: false, Notify: true,
		Conf: func(c *raft.Config) {
			hb := time.Duration(p.HBms[i]) * time.Millisecond
			c.HeartbeatTimeout, c.ElectionTimeout = hb, hb
			c.LeaderLeaseTimeout = hb / time.Duration(p.LeaseDiv)
			c.MaxAppendEntries = p.MaxAppend
			c.TrailingLogs = p.Trailing
			c.SnapshotThreshold = p.SnapThr
			c.SnapshotInterval = time.Duration(p.SnapIntMs) * time.Millisecond
			c.BatchApplyCh = p.BatchCh
			c.ShutdownOnRemove = p.ShutRm
			c.PreVoteDisabled = p.NoPreVote[i]
			if i < len(p.Proto) && p.Proto[i] != 0 {
				c.ProtocolVersion = raft.ProtocolVersion(p.Proto[i])
			}
			c.RestoreCommittedLogs = p.RCL && sim.Flavour(p.Flavour[i]) >= sim.CommitTracking
		},
	}
}

func (r *Runner) maxHB() time.Duration {
	m := 0
	for _, h := range r.P.HBms {
		if h > m {
			m = h
		}
	}
	return time.Duration(m) * time.Millisecond
}

// Setup builds the world and starts every server.
func (r *Runner) Setup() {
	p := r.P
	w := sim.NewWorld()
	w.Debug = false
	r.W = w
	if p.RPCms > 0 {
		w.Net.RPCTimeout = time.Duration(p.RPCms) * time.Millisecond
	}
	for _, v := range p.Proto {
		if v != 0 && v < 3 {
			w.AddrIsID = true
		}
	}
	var cfg raft.Configuration
	for i := 0; i < p.N; i++ {
		id := fmt.Sprintf("s%d", i)
		r.ids = append(r.ids, id)
		s := w.AddServer(id, sim.Flavour(p.Flavour[i]))
		if p.Suffrage[i] == 2 {
			continue // a late joiner: empty disk, not in the initial configuration, started by "join"
		}
		suf := raft.Voter
		if p.Suffrage[i] == 1 {
			suf = raft.Nonvoter
		}
		cfg.Servers = append(cfg.Servers, raft.Server{Suffrage: suf, ID: s.ID, Address: s.Addr})
	}
	for i := 0; i < p.N; i++ {
		if p.Suffrage[i] == 0 {
			w.Bootstrap(r.ids[i], cfg)
		}
	}
	w.FaultPlan = r.faultPlan
	w.ReadFault = r.readFault
	w.ReadFaultActive = func(in *sim.Instance) bool {
		f := r.flakyReads[in.ID()]
		return f != nil && !r.quiet && f.left > 0
	}
	r.flakyReads = map[string]*flakyRead{}
	w.Net.Policy = r.policy
	r.lossy = p.Lossy
	for i := 0; i < p.N; i++ {
		if p.Suffrage[i] != 2 {
			r.start(i)
		}
	}
}

// neverStarted: a late joiner that has not been started yet.
func (r *Runner) neverStarted(i int) bool {
	r.W.Mu.Lock()
	defer r.W.Mu.Unlock()
	return r.W.Servers[r.ids[i]].Gen == 0
}

func (r *Runner) start(i int) *sim.Instance {
	in := r.W.Start(r.ids[i], r.nodeOpts(i), 20*time.Second)
	if in.R == nil {
		r.W.Mu.Lock()
		switch {
		case in.StartHung:
			r.W.ViolateLocked("C10", "R3", "C10/R3/newraft-does-not-return", "%s: NewRaft did not return within 20 virtual seconds (disk: %s)", in.ID(), in.Srv.Disk.LogString())
		case in.StartPanic != nil:
			r.W.ViolateLocked("C10", "R3", "C10/R3/newraft-panics", "%s: NewRaft panicked: %v (disk: %s)", in.ID(), in.StartPanic, in.Srv.Disk.LogString())
		case in.StartErr != nil && strings.Contains(in.StartErr.Error(), sim.ErrInjected.Error()):
			// the store error the fault plan injected hit a start-up operation:
			// failing NewRaft with that error is the documented behaviour
			r.feat("newraft-refused-on-injected-store-error")
		default:
			r.W.ViolateLocked("C10", "R3", "C10/R3/newraft-fails", "%s: NewRaft failed: %v (disk: %s)", in.ID(), in.StartErr, in.Srv.Disk.LogString())
		}
		r.W.Mu.Unlock()
		return in
	}
	r.watchNotify(in)
	return in
}

// ---------------------------------------------------------------------------
// network policy and fault plan (called under W.Mu)

func (r *Runner) tape() byte {
	if len(r.P.Tape) == 0 {
		return 0
	}
	b := r.P.Tape[r.tapePos%len(r.P.Tape)]
	r.tapePos++
	return b
}

func (r *Runner) policy(m *sim.Msg, resp bool) sim.Verdict {
	from, to := m.From, m.To
	if resp {
		from, to = m.To, m.From
	}
	if m.Late && !resp {
		return sim.VDeliver // a copy that was already in flight: no later cut stops it
	}
	if r.cut[[2]string{from, to}] {
		if r.refuse && !resp {
			return sim.VRefuse
		}
		return sim.VDrop
	}
	if r.lateCopyISms > 0 && !resp && m.Kind == sim.KSnapshot && !m.Dup && m.Pipe == nil && !r.quiet {
		m.LateCopyMs = r.lateCopyISms
		r.lateCopyFrom, r.lateCopyDue = m.From, r.W.Now()+int64(r.lateCopyISms)
		r.lateCopyISms = 0
		r.feat("msg-duplicated")
	}
	if r.holdISms > 0 && !resp && m.Kind == sim.KSnapshot && !r.cut[[2]string{from, to}] {
		m.ReadyAt = r.W.Now() + int64(r.holdISms)
		r.heldISFrom, r.heldISUntil = m.From, m.ReadyAt
		r.holdISms = 0
		r.feat("msg-delayed-long")
		return sim.VHold
	}
	if r.verifyOnIS > 0 && !resp && m.Kind == sim.KSnapshot && r.verifyAt == 0 {
		r.verifyAt, r.verifyOn = r.W.Now()+int64(r.verifyOnIS-1), m.From
		r.verifyOnIS = 0
		// the answer to this request is still on its way when the call is made
		r.slowISResp, r.slowISUntil = m.ID, r.verifyAt+1+int64(r.tape()%3)
	}
	if resp && m.Kind == sim.KSnapshot && m.ID == r.slowISResp && r.W.Now() < r.slowISUntil && !r.quiet {
		m.ReadyAt = r.slowISUntil
		return sim.VHold
	}
	if per, limited := r.aeBudget[m.From]; limited && !resp && !r.quiet && !m.Marked {
		if ae, ok := m.Req.(*raft.AppendEntriesRequest); ok && len(ae.Entries) > 0 {
			key := m.From + ">" + m.To
			used := r.aeUsed[key]
			if used >= per {
				return sim.VDrop
			}
			m.Marked = true
			r.aeUsed[key] = used + 1
		}
	}
	if r.slowAckFrom != "" && resp && from == r.slowAckFrom && !m.SlowDone && !r.quiet && (m.Kind == sim.KAppend || m.Kind == sim.KHeartbeat) {
		m.SlowDone = true
		m.ReadyAt = r.W.Now() + int64(r.slowAckMs)
		return sim.VHold
	}
	if r.dropAppendAcks && resp && !r.quiet {
		if ae, ok := m.Req.(*raft.AppendEntriesRequest); ok && len(ae.Entries) > 0 {
			return sim.VDrop
		}
	}
	// link latency (not a fault; switched off for the quiet phase, whose
	// bounds are stated for an undisturbed network)
	if r.P.LatencyMs > 0 && !r.quiet {
		done := &m.LatReq
		if resp {
			done = &m.LatResp
		}
		if !*done {
			*done = true
			m.ReadyAt = r.W.Now() + 1 + int64(int(r.tape())%r.P.LatencyMs)
			return sim.VHold
		}
	}
	if !r.lossy || r.quiet {
		return sim.VDeliver
	}
	if m.Decided {
		return sim.VDeliver
	}
	m.Decided = true
	b := r.tape()
	switch {
	case b < 160:
		return sim.VDeliver
	case b < 200:
		m.ReadyAt = r.W.Now() + int64(b-159) // 1..40 ms
		r.feat("msg-delayed")
		return sim.VHold
	case b < 225:
		r.feat("msg-dropped")
		return sim.VDrop
	case b < 245:
		if !resp {
			r.feat("msg-duplicated")
			return sim.VDuplicate
		}
		return sim.VDeliver
	default:
		m.ReadyAt = r.W.Now() + 60 + int64(b-245)*10 // 60..160 ms: beyond RPC time-outs
		r.feat("msg-delayed-long")
		return sim.VHold
	}
}

// (a budget of reads, not a time window: code that retries a failed read at once
// would otherwise spin for ever at one virtual instant)
type flakyRead struct {
	left int // eligible reads still subject to the fault
	odds int // of 8
}

// readFault (called under W.Mu): inside a server's flaky window a log read at
// a site where raft handles the error fails with the drawn odds.
func (r *Runner) readFault(in *sim.Instance, site string, index uint64) bool {
	f := r.flakyReads[in.ID()]
	if f == nil || r.quiet || f.left <= 0 {
		return false
	}
	f.left--
	if int(r.tape())%8 < f.odds {
		r.feat("log-read-error@" + site)
		r.W.O.ResetRepeats(in.ID())
		return true
	}
	return false
}

func (r *Runner) faultPlan(op *sim.DiskOp) sim.Decision {
	if r.quiet {
		return sim.DoOK
	}
	for _, f := range r.faults {
		if f.fired || f.srv != op.Inst.ID() {
			continue
		}
		tag := string(op.Kind) + "@" + op.Site
		if f.site != "" && !containsAny(tag, f.site) {
			continue
		}
		f.seen++
		if f.seen < f.nth {
			continue
		}
		f.fired = true
		// errors only where raft handles one; elsewhere the fault is a crash
		dec := f.dec
		if dec == sim.DoError && !errorHandledAt(op) {
			dec = sim.DoCrashBefore
		}
		r.feat(fmt.Sprintf("fault:%v@%s", dec, op.Site))
		r.lastFaultMs = r.W.Now()
		return dec
	}
	return sim.DoOK
}

func containsAny(s, sub string) bool {
	return len(sub) == 0 || (len(s) >= len(sub) && (stringsIndex(s, sub) >= 0))
}

func stringsIndex(s, sub string) int {
	for i := 0; i+len(sub) <= len(s); i++ {
		if s[i:i+len(sub)] == sub {
			return i
		}
	}
	return -1
}

// errorHandledAt: store errors that raft handles by design (it panics on a
// failed term write, so that point only gets crashes).
func errorHandledAt(op *sim.DiskOp) bool {
	switch op.Site {
	case "setCurrentTerm", "NewRaft", "liveBootstrap", "BootstrapCluster":
		return false
	}
	return true
}

// ---------------------------------------------------------------------------
// targets

func (r *Runner) inst(i int) *sim.Instance {
	if i < 0 || i >= len(r.ids) {
		return nil
	}
	r.W.Mu.Lock()
	defer r.W.Mu.Unlock()
	in := r.W.Servers[r.ids[i]].Inst
	if in == nil || in.R == nil {
		return nil
	}
	return in
}

func (r *Runner) live(i int) *sim.Instance {
	in := r.inst(i)
	if in == nil || in.Dead() || in.R.State() == raft.Shutdown {
		return nil
	}
	return in
}

// leader returns the live server in Leader state with the highest term.
func (r *Runner) leader() (int, *sim.Instance) {
	best, bi := (*sim.Instance)(nil), -1
	for i := range r.ids {
		in := r.live(i)
		if in == nil || in.R.State() != raft.Leader {
			continue
		}
		if best == nil || in.R.CurrentTerm() > best.R.CurrentTerm() {
			best, bi = in, i
		}
	}
	return bi, best
}

// resolve maps an action target to a server index.
func (r *Runner) resolve(t int) int {
	switch {
	case t == -1:
		if i, _ := r.leader(); i >= 0 {
			return i
		}
		return 0
	case t == -2:
		li, _ := r.leader()
		for i := range r.ids {
			if i != li && r.live(i) != nil {
				return i
			}
		}
		return 0
	case t < 0:
		return 0
	}
	return t % len(r.ids)
}

// ---------------------------------------------------------------------------
// client calls

func (r *Runner) newOp(kind string, in *sim.Instance, payload uint64, arg string) *ClientOp {
	w := r.W
	w.Mu.Lock()
	defer w.Mu.Unlock()
	op := &ClientOp{ID: len(r.Ops), Kind: kind, Srv: in.ID(), Gen: in.Gen, Payload: payload, InvokeMs: w.Now(), InvokeSeq: w.Seq, Arg: arg,
		ackedBefore: r.maxAcked, cmdBefore: w.O.MaxCommittedCmd(), inst: in}
	r.Ops = append(r.Ops, op)
	w.EvLocked(sim.Event{Kind: "invoke", Srv: in.ID(), Gen: in.Gen, S: kind + " " + arg, A: uint64(op.ID), B: payload})
	return op
}

func (r *Runner) finish(op *ClientOp, err error, index uint64, resp any) {
	w := r.W
	w.Mu.Lock()
	defer w.Mu.Unlock()
	op.Done, op.err, op.Index, op.resp = true, err, index, resp
	op.ReturnMs, op.ReturnSeq = w.Now(), w.Seq
	if err != nil {
		op.Err = err.Error()
	}
	if op.inst.DeadLocked() {
		op.orphaned = true // answer of a crashed process: nobody sees it
		return
	}
	w.EvLocked(sim.Event{Kind: "return", Srv: op.Srv, Gen: op.Gen, S: op.Kind + " " + op.Err, A: uint64(op.ID), B: index, OK: err == nil})
	r.judgeReturn(op)
}

func (r *Runner) doApply(in *sim.Instance, n int, timeout time.Duration) {
	for k := 0; k < n; k++ {
		payload := r.W.NewPayload()
		op := r.newOp("apply", in, payload, "")
		go func() {
			f := in.R.Apply(sim.EncodePayload(payload, 0), timeout)
			err := f.Error()
			var idx uint64
			var resp any
			if err == nil {
				idx, resp = f.Index(), f.Response()
			}
			r.finish(op, err, idx, resp)
		}()
	}
	r.feat("apply")
}

func (r *Runner) doBarrier(in *sim.Instance) {
	op := r.newOp("barrier", in, 0, "")
	go func() {
		f := in.R.Barrier(0)
		r.finish(op, f.Error(), 0, nil)
	}()
	r.feat("barrier")
}

func (r *Runner) doVerify(in *sim.Instance) {
	op := r.newOp("verify", in, 0, "")
	op.termAtInvoke = in.R.CurrentTerm()
	op.cfgAtInvoke = r.cfgOf(in)
	go func() {
		f := in.R.VerifyLeader()
		r.finish(op, f.Error(), 0, nil)
	}()
	r.feat("verify")
}

func (r *Runner) doMembership(in *sim.Instance, kind string, target int, prev uint64) {
	tid := r.ids[target]
	srv := r.W.Servers[tid]
	op := r.newOp(kind, in, 0, fmt.Sprintf("%s prev=%d", tid, prev))
	r.W.Mu.Lock()
	op.prevIndex = prev
	r.W.Mu.Unlock()
	if prev != 0 {
		r.feat("membership-with-previndex")
	}
	go func() {
		var f raft.IndexFuture
		switch kind {
		case "addvoter":
			f = in.R.AddVoter(srv.ID, srv.Addr, prev, 0)
		case "addnonvoter":
			f = in.R.AddNonvoter(srv.ID, srv.Addr, prev, 0)
		case "demote":
			f = in.R.DemoteVoter(srv.ID, prev, 0)
		default:
			f = in.R.RemoveServer(srv.ID, prev, 0)
		}
		err := f.Error()
		var idx uint64
		if err == nil {
			idx = f.Index()
		}
		r.finish(op, err, idx, nil)
	}()
	r.feat("membership")
}

func (r *Runner) doSnapshot(in *sim.Instance) {
	op := r.newOp("snapshot", in, 0, "")
	go func() {
		f := in.R.Snapshot()
		r.finish(op, f.Error(), 0, nil)
	}()
	r.feat("user-snapshot")
}

func (r *Runner) doTransfer(in *sim.Instance, target int) {
	arg := "any"
	if target >= 0 {
		arg = r.ids[target]
	}
	op := r.newOp("transfer", in, 0, arg)
	go func() {
		var f raft.Future
		if target >= 0 {
			s := r.W.Servers[r.ids[target]]
			f = in.R.LeadershipTransferToServer(s.ID, s.Addr)
		} else {
			f = in.R.LeadershipTransfer()
		}
		r.finish(op, f.Error(), 0, nil)
	}()
	r.feat("transfer")
}

func (r *Runner) doGetConfiguration(in *sim.Instance) {
	op := r.newOp("getconfig", in, 0, "")
	go func() {
		f := in.R.GetConfiguration()
		r.finish(op, f.Error(), 0, nil)
	}()
}

func (r *Runner) doShutdown(in *sim.Instance) {
	op := r.newOp("shutdown", in, 0, "")
	go func() {
		f := in.R.Shutdown()
		r.finish(op, f.Error(), 0, nil)
	}()
	r.feat("shutdown")
}

var definiteFailures = []error{raft.ErrNotLeader, raft.ErrEnqueueTimeout, raft.ErrLeadershipTransferInProgress}

func isDefiniteFailure(err error) bool {
	for _, e := range definiteFailures {
		if errors.Is(err, e) {
			return true
		}
	}
	return false
}

// judgeReturn evaluates the client-visible rules at the instant a call
// returns. Caller holds W.Mu.
func (r *Runner) judgeReturn(op *ClientOp) {
	w := r.W
	switch op.Kind {
	case "apply":
		if op.err == nil {
			r.feat("apply-ok")
			// C08/R1
			ce := w.O.Committed(op.Index)
			if ce == nil {
				w.ViolateLocked("C08", "R1", "C08/R1/acked-index-not-applied", "apply #%d payload %d acknowledged at index %d on %s but no FSM was handed that index", op.ID, op.Payload, op.Index, op.Srv)
			} else if ce.Payload != op.Payload {
				w.ViolateLocked("C08", "R1", "C08/R1/acked-index-holds-another-command", "apply #%d payload %d acknowledged at index %d on %s but the agreed entry there carries payload %d", op.ID, op.Payload, op.Index, op.Srv, ce.Payload)
			}
			ar, ok := op.resp.(*sim.ApplyResult)
			if !ok || ar == nil || ar.Index != op.Index || ar.Payload != op.Payload || ar.Srv != op.Srv || ar.Gen != op.Gen {
				w.ViolateLocked("C08", "R1", "C08/R1/response-not-from-local-fsm-for-this-entry", "apply #%d payload %d index %d on %s/%d got Response %+v", op.ID, op.Payload, op.Index, op.Srv, op.Gen, op.resp)
			}
			if op.inst.FSM.BatchOlder[op.Index] {
				r.feat("acked-entry-applied-in-one-batch-behind-an-inherited-command")
			}
			// C08/R2 real-time order
			if op.Index <= op.ackedBefore {
				w.ViolateLocked("C08", "R2", "C08/R2/index-not-above-earlier-acknowledged", "apply #%d invoked after index %d had been acknowledged, but was acknowledged at index %d", op.ID, op.ackedBefore, op.Index)
			}
			if op.Index > r.maxAcked {
				r.maxAcked = op.Index
			}
			w.O.CommitAck(op.inst, op.Index, "acknowledged to client on "+op.Srv)
		} else if isDefiniteFailure(op.err) {
			r.feat("apply-definite-failure")
			r.failed[op.Payload] = op.Err
			if at := w.O.StoredAt(op.Payload); at != 0 {
				w.ViolateLocked("C08", "R3", "C08/R3/definitely-failed-command-was-stored", "apply #%d payload %d returned %q on %s but the command was stored at index %d", op.ID, op.Payload, op.Err, op.Srv, at)
			}
			w.O.WatchPayload(op.Payload, op.Err)
		} else {
			r.feat("apply-ambiguous:" + shortErr(op.Err))
		}
	case "barrier":
		if op.err == nil {
			r.feat("barrier-ok")
			// (after a user Restore the FSM holds the operator's state; only
			// commands committed after it are comparable)
			if last := op.inst.FSM.State.LastIdx; last < op.cmdBefore && op.cmdBefore > w.O.RestoreFloor() {
				w.ViolateLocked("C08", "R4", "C08/R4/barrier-returned-before-fsm-caught-up", "barrier #%d on %s returned with local FSM at command index %d; command %d was committed before it was invoked", op.ID, op.Srv, last, op.cmdBefore)
			}
		}
	case "addvoter", "addnonvoter", "demote", "remove":
		if op.err == nil {
			r.feat("membership-ok")
			w.O.CommitAck(op.inst, op.Index, op.Kind+" acknowledged on "+op.Srv)
			// C07/R1: a change that names a prevIndex takes effect only on top of that very configuration
			if p, ok := w.O.PrevCfgOfAppend(op.Srv, op.Index); ok && op.prevIndex != 0 && p != op.prevIndex {
				w.ViolateLocked("C07", "R1", "C07/R1/stale-previndex-accepted", "%s #%d (%s) on %s named prevIndex %d and succeeded at index %d, but the latest configuration it replaced was at index %d", op.Kind, op.ID, op.Arg, op.Srv, op.prevIndex, op.Index, p)
			}
			if op.prevIndex != 0 {
				r.feat("membership-with-previndex-ok")
			}
			if op.Index > r.maxAcked {
				r.maxAcked = op.Index
			}
		}
	case "verify":
		r.judgeVerify(op)
	case "restore":
		if op.err == nil {
			w.O.RestoreConfirmed(op.Srv)
			if b := w.O.RestoreFloor(); b > r.maxAcked {
				r.maxAcked = b // C20/R2: later entries get indexes above the burned one
			}
		} else {
			r.feat("restore-refused:" + shortErr(op.Err))
		}
		for _, rec := range r.restores {
			if rec.op == op {
				rec.returned, rec.writtenAtReturn = true, w.O.UserSnapshotWrittenAt(rec.state.Hash)
			}
		}
	}
}

func shortErr(s string) string {
	if len(s) > 28 {
		return s[:28]
	}
	return s
}

// ---------------------------------------------------------------------------
// sorted helper

func sortedInts(m map[int]bool) []int {
	var out []int
	for k := range m {
		out = append(out, k)
	}
	sort.Ints(out)
	return out
}
