package cluster

import (
	"fmt"
	"os"
	"testing"
	"time"

	"verif/harness/sim"
)

func baseProgram(n int) *Program {
	p := &Program{N: n, LeaseDiv: 1, MaxAppend: 8, Trailing: 5, SnapThr: 10, SnapIntMs: 100, RPCms: 100, Profile: "smoke"}
	for i := 0; i < n; i++ {
		p.Suffrage = append(p.Suffrage, 0)
		p.Flavour = append(p.Flavour, 0)
		p.Batching = append(p.Batching, i%2 == 0)
		p.ConfStore = append(p.ConfStore, false)
		p.NoPreVote = append(p.NoPreVote, false)
		p.HBms = append(p.HBms, 50)
	}
	return p
}

func TestSmoke(t *testing.T) {
	p := baseProgram(3)
	p.Actions = []Action{
		{Op: "tick", Dt: 300},
		{Op: "apply", Srv: -1, N: 20, Dt: 10},
		{Op: "apply", Srv: -1, N: 20, Dt: 50},
		{Op: "isolate", Srv: -1, Dt: 50},
		{Op: "apply", Srv: -1, N: 5, Dt: 300},
		{Op: "heal", Dt: 100},
		{Op: "crash", Srv: -1, Dt: 100},
		{Op: "apply", Srv: -1, N: 5, Dt: 300},
		{Op: "verify", Srv: -1, Dt: 10},
		{Op: "barrier", Srv: -1, Dt: 10},
	}
	start := time.Now()
	var r *Runner
	left := sim.Bubble(t, func() {
		r = NewRunner(p, RunOpts{Debug: os.Getenv("DEBUG") != ""})
		r.Run()
	})
	fmt.Println("wall", time.Since(start), "virtual ms", r.W.Now(), "events", r.W.Seq, "leftover:", left)
	fmt.Println("feat", r.Feat)
	fmt.Println("stats", r.W.O.Stats)
	fmt.Println("leaders", r.W.O.LeaderSeq)
	for _, v := range r.W.Violations() {
		fmt.Printf("VIOL %+v\n", v)
	}
	done := 0
	for _, op := range r.Ops {
		if op.Done {
			done++
		}
	}
	fmt.Println("ops", len(r.Ops), "done", done)
}
