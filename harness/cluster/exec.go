package cluster

import (
	"fmt"
	"runtime"
	"strings"
	"time"

	"github.com/hashicorp/raft"

	"verif/harness/sim"
)

// notifyRec records what a NotifyCh consumer saw (C18).
type notifyRec struct {
	vals  []bool
	times []int64
	delay time.Duration
}

func (r *Runner) watchNotify(in *sim.Instance) {
	rec := &notifyRec{}
	r.W.Mu.Lock()
	r.notif[in] = rec
	r.W.Mu.Unlock()
	if in.NotifyCh == nil {
		return
	}
	go func() {
		for {
			select {
			case v := <-in.NotifyCh:
				r.W.Mu.Lock()
				rec.vals = append(rec.vals, v)
				rec.times = append(rec.times, r.W.Now())
				r.W.EvLocked(sim.Event{Kind: "notify", Srv: in.ID(), Gen: in.Gen, OK: v})
				d := rec.delay
				r.W.Mu.Unlock()
				if d > 0 {
					time.Sleep(d)
				}
			case <-in.Stopped():
				return
			}
		}
	}()
}

// exec runs one action (after its Dt has elapsed).
func (r *Runner) exec(a Action) {
	w := r.W
	switch a.Op {
	case "tick":
	case "apply":
		if in := r.live(r.resolve(a.Srv)); in != nil {
			to := time.Duration(0)
			if a.Arg > 0 {
				to = time.Duration(a.Arg) * time.Millisecond
			}
			n := a.N
			if n <= 0 {
				n = 1
			}
			r.doApply(in, n, to)
		}
	case "barrier":
		if in := r.live(r.resolve(a.Srv)); in != nil {
			r.doBarrier(in)
		}
	case "verify":
		if in := r.live(r.resolve(a.Srv)); in != nil {
			r.doVerify(in)
		}
	case "getconfig":
		if in := r.live(r.resolve(a.Srv)); in != nil {
			r.doGetConfiguration(in)
		}
	case "partition":
		// Set = one side; everybody else is the other side
		side := map[string]bool{}
		for _, i := range a.Set {
			side[r.ids[i%len(r.ids)]] = true
		}
		w.Mu.Lock()
		for _, x := range r.ids {
			for _, y := range r.ids {
				if side[x] != side[y] {
					r.cut[[2]string{x, y}] = true
				}
			}
		}
		r.refuse = a.Arg == 1
		w.EvLocked(sim.Event{Kind: "partition", S: fmt.Sprint(a.Set)})
		r.lastFaultMs = w.Now()
		w.Mu.Unlock()
		r.feat("partition")
	case "isolate":
		i := r.resolve(a.Srv)
		w.Mu.Lock()
		for _, y := range r.ids {
			if y != r.ids[i] {
				r.cut[[2]string{r.ids[i], y}] = true
				r.cut[[2]string{y, r.ids[i]}] = true
			}
		}
		w.EvLocked(sim.Event{Kind: "isolate", Srv: r.ids[i]})
		r.lastFaultMs = w.Now()
		w.Mu.Unlock()
		r.feat("isolate")
	case "oneway":
		i, j := r.resolve(a.Srv), a.N%len(r.ids)
		if i != j {
			w.Mu.Lock()
			r.cut[[2]string{r.ids[i], r.ids[j]}] = true
			w.EvLocked(sim.Event{Kind: "oneway", Srv: r.ids[i], Peer: r.ids[j]})
			r.lastFaultMs = w.Now()
			w.Mu.Unlock()
			r.feat("oneway-cut")
		}
	case "heal":
		w.Mu.Lock()
		r.cut = map[[2]string]bool{}
		r.healEpoch.Add(1)
		w.EvLocked(sim.Event{Kind: "heal"})
		r.lastFaultMs = w.Now()
		w.Mu.Unlock()
	case "lossy":
		w.Mu.Lock()
		r.lossy = a.N != 0
		r.lastFaultMs = w.Now()
		w.Mu.Unlock()
		r.feat("lossy")
	case "crash":
		if in := r.live(r.resolve(a.Srv)); in != nil {
			in.Crash()
			r.lastFaultMs = w.Now()
			r.feat("crash-now")
		}
	case "crashop", "storefault":
		i := r.resolve(a.Srv)
		dec := sim.DoCrashAfter
		switch a.Arg % 3 {
		case 1:
			dec = sim.DoCrashBefore
		case 2:
			dec = sim.DoError
		}
		sites := []string{"", "persistVote", "setCurrentTerm", "StoreLogs", "DeleteRange", "SnapClose", "appendEntries", "dispatchLogs", "installSnapshot", "compactLogs"}
		n := a.N
		if n <= 0 {
			n = 1
		}
		site := ""
		if len(a.Set) > 0 {
			site = sites[a.Set[0]%len(sites)]
		}
		w.Mu.Lock()
		r.faults = append(r.faults, &faultSpec{srv: r.ids[i], site: site, nth: n, dec: dec})
		w.Mu.Unlock()
		r.feat("fault-armed")
	case "flakyreads":
		// the server's log store fails some of its next a.N reads (GetLog) where
		// raft handles the error: the follower rejects, the leader retries
		i := r.resolve(a.Srv)
		w.Mu.Lock()
		r.flakyReads[r.ids[i]] = &flakyRead{left: max(a.N, 5), odds: min(max(a.Arg, 1), 7)}
		r.lastFaultMs = w.Now()
		w.Mu.Unlock()
		r.feat("flaky-log-reads")
	case "restart":
		i := r.resolve(a.Srv)
		if a.Arg == 1 {
			r.spoilNewestSnapshot(i)
		}
		r.restart(i)
	case "restartall":
		for i := range r.ids {
			if in := r.live(i); in != nil {
				in.Crash()
			}
		}
		r.reapDead()
		for i := range r.ids {
			if !r.neverStarted(i) {
				r.restart(i)
			}
		}
		r.feat("restart-all")
	case "join":
		// a fresh server (empty disk) is started and added by the leader;
		// optionally its log store fails once while it is being caught up
		m := -1
		for i := range r.ids {
			if r.P.Suffrage[i] == 2 && r.neverStarted(i) {
				m = i
				break
			}
		}
		_, L := r.leader()
		if m < 0 || L == nil {
			return
		}
		if a.Arg > 0 {
			dec := sim.DoError
			if a.Arg >= 3 {
				dec = sim.DoCrashAfter
			}
			w.Mu.Lock()
			r.faults = append(r.faults, &faultSpec{srv: r.ids[m], site: "StoreLogs", nth: min(a.Arg, 2), dec: dec})
			w.Mu.Unlock()
			r.feat("fault-armed")
		}
		r.start(m)
		kind := "addvoter"
		if a.N%2 == 1 {
			kind = "addnonvoter"
		}
		r.doMembership(L, kind, m, 0)
		r.feat("fresh-server-joins")
	case "addvoter", "addnonvoter", "demote", "remove":
		if m := a.N % len(r.ids); (a.Op == "addvoter" || a.Op == "addnonvoter") && r.neverStarted(m) {
			r.start(m)
			r.feat("fresh-server-joins")
		}
		if in := r.live(r.resolve(a.Srv)); in != nil {
			// (GetConfiguration().Index() is always 0 in this version of the library:
			// the index a careful caller would name is read off the server's log)
			var prev uint64
			w.Mu.Lock()
			_, cur := sim.LatestCfgInDisk(in.Srv.Disk, false)
			w.Mu.Unlock()
			switch a.Arg {
			case 1: // current
				prev = cur
			case 2: // stale: the configuration before, or one that does not exist yet
				prev = cur + 3
				if cur > 1 && a.Dt%2 == 0 {
					prev = cur - 1
				}
			}
			r.doMembership(in, a.Op, a.N%len(r.ids), prev)
		}
	case "snapshot":
		if in := r.live(r.resolve(a.Srv)); in != nil {
			r.doSnapshot(in)
		}
	case "reload":
		if in := r.live(r.resolve(a.Srv)); in != nil {
			rc := in.R.ReloadableConfig()
			if a.N > 0 {
				hb := time.Duration(a.N) * time.Millisecond
				if hb < in.Conf.LeaderLeaseTimeout {
					hb = in.Conf.LeaderLeaseTimeout
				}
				rc.HeartbeatTimeout, rc.ElectionTimeout = hb, hb
			}
			if a.Arg > 0 {
				rc.TrailingLogs = uint64(a.Arg - 1)
			}
			_ = in.R.ReloadConfig(rc)
			r.feat("reload")
		}
	case "transfer":
		if in := r.live(r.resolve(a.Srv)); in != nil {
			t := -1
			if a.Arg == 1 {
				t = a.N % len(r.ids)
			}
			r.doTransfer(in, t)
		}
	case "restore":
		// (a restore on a leader that is already cut off from its majority is
		// the documented hazard of Restore, not a case any property covers)
		if in := r.live(r.resolve(a.Srv)); in != nil && !r.stillCut(in.ID()) {
			r.doUserRestore(in, a.N, a.Arg)
		}
	case "shutdown":
		if in := r.live(r.resolve(a.Srv)); in != nil {
			r.doShutdown(in)
		}
	case "slowconsumer":
		if in := r.inst(r.resolve(a.Srv)); in != nil {
			w.Mu.Lock()
			if rec := r.notif[in]; rec != nil {
				rec.delay = time.Duration(a.N) * time.Millisecond
			}
			w.Mu.Unlock()
		}
	default:
		r.execMacro(a)
	}
}

func (r *Runner) reapDead() {
	for i := range r.ids {
		r.W.Mu.Lock()
		in := r.W.Servers[r.ids[i]].Inst
		dead := in != nil && in.DeadLocked()
		r.W.Mu.Unlock()
		if dead {
			r.reap(in)
		}
	}
}

// reap shuts an incarnation down from a helper goroutine and lets the bubble
// run until it is gone.
func (r *Runner) reap(in *sim.Instance) {
	done := make(chan struct{})
	go func() {
		in.Reap()
		close(done)
	}()
	bound := int(10*r.W.Net.RPCTimeout/time.Millisecond) + 1000
	for k := 0; k < bound; k++ {
		r.W.Settle()
		select {
		case <-done:
			return
		default:
		}
		time.Sleep(time.Millisecond)
	}
	r.W.Violate("C17", "R3", "C17/R3/shutdown-does-not-complete", "%s: Shutdown().Error() did not return within 10 RPC time-outs + 1 s (virtual); blocked raft goroutines:\n%s", in.ID(), raftStacks())
}

// spoilNewestSnapshot: the next Open of a stopped server's newest snapshot fails
// (a read error at start-up), provided an older one is retained and the log
// still holds everything between the two - NewRaft then falls back.
func (r *Runner) spoilNewestSnapshot(i int) {
	w := r.W
	w.Mu.Lock()
	defer w.Mu.Unlock()
	srv := w.Servers[r.ids[i]]
	if in := srv.Inst; in != nil && !in.DeadLocked() && in.R != nil && in.R.State() != raft.Shutdown {
		return // running: restart is a no-op
	}
	d := srv.Disk
	newest, older := d.NewestSnap(), (*sim.Snap)(nil)
	for _, s := range d.Snaps {
		if s != newest && !s.Bad && (older == nil || s.Meta.Index > older.Meta.Index) {
			older = s
		}
	}
	if newest == nil || older == nil || newest.Bad || d.First() == 0 || d.First() > older.Meta.Index+1 || d.Last() < newest.Meta.Index {
		return
	}
	for i := older.Meta.Index + 1; i <= newest.Meta.Index; i++ {
		if _, ok := d.Logs[i]; !ok {
			return // e.g. the index a user Restore burned: only the newer snapshot bridges that hole
		}
	}
	newest.BadOnce = true
	r.feat("newest-snapshot-unreadable-at-start-up")
}

func (r *Runner) restart(i int) {
	r.W.Mu.Lock()
	in := r.W.Servers[r.ids[i]].Inst
	r.W.Mu.Unlock()
	if in != nil {
		if !in.Dead() {
			if in.R != nil && in.R.State() != raft.Shutdown {
				return // running
			}
		}
		r.reap(in)
	}
	r.start(i)
	r.feat("restart")
}

// Run executes the whole program inside the current bubble.
func (r *Runner) Run() {
	r.wall0 = sim.WallNow()
	if r.wallBudget == 0 {
		r.wallBudget = 20 * time.Second
	}
	r.Setup()
	r.W.Stop = r.stopEarly
	r.W.Round = r.sampleCommit
	for _, a := range r.P.Actions {
		if a.Dt > 0 {
			r.W.Advance(time.Duration(a.Dt)*time.Millisecond, r.sample)
		}
		r.exec(a)
		if r.stopEarly() {
			break
		}
	}
	if !r.stopEarly() {
		r.quietPhase()
	}
	r.finalChecks()
	r.teardown()
}

func (r *Runner) stopEarly() bool {
	if r.stop {
		return true
	}
	r.W.Mu.Lock()
	n := len(r.W.Viol)
	r.W.Mu.Unlock()
	if n > 0 {
		r.stop = true
		return true
	}
	if sim.WallNow()-r.wall0 > int64(r.wallBudget) {
		r.stop, r.Aborted = true, "wall-clock budget for one case exhausted"
		return true
	}
	return false
}

func (r *Runner) teardown() {
	r.W.Mu.Lock()
	r.quiet = true
	r.quietFlag.Store(true)
	r.cut = map[[2]string]bool{}
	r.W.Mu.Unlock()
	for _, id := range r.ids {
		r.W.Mu.Lock()
		in := r.W.Servers[id].Inst
		r.W.Mu.Unlock()
		if in != nil {
			r.reap(in)
		}
	}
	r.W.Settle()
}

// raftStacks returns the stacks of goroutines that are inside raft code.
func raftStacks() string {
	buf := make([]byte, 1<<20)
	buf = buf[:runtime.Stack(buf, true)]
	var out []string
	for _, g := range strings.Split(string(buf), "\n\n") {
		if strings.Contains(g, "hashicorp/raft.") && !strings.Contains(g, "raftStacks") {
			lines := strings.Split(g, "\n")
			if len(lines) > 14 {
				lines = lines[:14]
			}
			out = append(out, strings.Join(lines, "\n"))
		}
	}
	if len(out) > 12 {
		out = out[:12]
	}
	return strings.Join(out, "\n--\n")
}
