package cluster

import (
	"pgregory.net/rapid"
)

type weighted struct {
	op string
	w  int
}

var profiles = map[string][]weighted{
	// general-purpose fault mix used by the safety properties
	"safety": {{"apply", 30}, {"tick", 8}, {"isolate", 7}, {"partition", 6}, {"oneway", 3}, {"heal", 9}, {"crash", 6}, {"crashop", 6},
		{"restart", 7}, {"restartall", 1}, {"lossy", 3}, {"snapshot", 3}, {"addvoter", 2}, {"addnonvoter", 1}, {"demote", 1}, {"remove", 2},
		{"transfer", 3}, {"verify", 2}, {"barrier", 2}, {"reload", 2}, {"shutdown", 1}},
}

func pick(t *rapid.T, ws []weighted, label string) string {
	total := 0
	for _, w := range ws {
		total += w.w
	}
	x := rapid.IntRange(0, total-1).Draw(t, label)
	for _, w := range ws {
		if x < w.w {
			return w.op
		}
		x -= w.w
	}
	return ws[0].op
}

func oneOf[T any](t *rapid.T, label string, xs ...T) T {
	return xs[rapid.IntRange(0, len(xs)-1).Draw(t, label)]
}

// GenShape draws the cluster record.
func GenShape(t *rapid.T, p *Program) {
	p.N = oneOf(t, "n", 3, 3, 3, 3, 3, 5, 5, 5, 4, 2, 1)
	flavourMode := oneOf(t, "flavourMode", 0, 0, 0, 0, 1, 1, 2, 2, 3)
	hbBase := oneOf(t, "hbBase", 50, 50, 100)
	for i := 0; i < p.N; i++ {
		suf := 0
		if i > 0 && p.N >= 3 && rapid.IntRange(0, 6).Draw(t, "nonvoter") == 0 {
			suf = 1
		}
		p.Suffrage = append(p.Suffrage, suf)
		fl := 0
		switch flavourMode {
		case 1:
			fl = 1
		case 2:
			fl = rapid.IntRange(0, 1).Draw(t, "flavour")
		case 3:
			fl = 2
		}
		p.Flavour = append(p.Flavour, fl)
		p.Batching = append(p.Batching, rapid.Bool().Draw(t, "batching"))
		p.ConfStore = append(p.ConfStore, rapid.IntRange(0, 3).Draw(t, "confstore") == 0)
		p.NoPreVote = append(p.NoPreVote, rapid.IntRange(0, 6).Draw(t, "noprevote") == 0)
		p.HBms = append(p.HBms, hbBase*oneOf(t, "hbFactor", 1, 1, 1, 1, 3))
	}
	p.RCL = flavourMode == 3
	p.LeaseDiv = oneOf(t, "leaseDiv", 1, 1, 2)
	p.MaxAppend = oneOf(t, "maxAppend", 1, 2, 3, 8, 64)
	p.Trailing = oneOf[uint64](t, "trailing", 0, 1, 2, 5, 20, 10240)
	p.SnapThr = oneOf[uint64](t, "snapThr", 2, 5, 20, 8192)
	p.SnapIntMs = oneOf(t, "snapInt", 20, 100, 1000)
	p.BatchCh = rapid.Bool().Draw(t, "batchApplyCh")
	p.ShutRm = rapid.Bool().Draw(t, "shutdownOnRemove")
	p.Pipeline = rapid.Bool().Draw(t, "pipeline")
	p.RPCms = oneOf(t, "rpcTimeout", 100, 100, 30, 200)
}

func genAction(t *rapid.T, p *Program, ws []weighted) Action {
	a := Action{Op: pick(t, ws, "op")}
	a.Dt = oneOf(t, "dt", 0, 0, 1, 2, 5, 10, 20, 50, 100, 200, 400)
	tgt := func() int { return oneOf(t, "target", -1, -1, -1, -2, 0, 1, 2, 3, 4) }
	switch a.Op {
	case "apply":
		a.Srv = tgt()
		a.N = oneOf(t, "burst", 1, 1, 2, 3, 5, 10, 20)
		a.Arg = oneOf(t, "enqueueTimeout", 0, 0, 0, 1, 5)
	case "barrier", "verify", "snapshot", "crash", "restart", "isolate", "shutdown", "getconfig":
		a.Srv = tgt()
	case "partition":
		k := rapid.IntRange(1, max(1, p.N-1)).Draw(t, "sideSize")
		perm := rapid.Permutation(seq(p.N)).Draw(t, "side")
		a.Set = perm[:k]
		a.Arg = rapid.IntRange(0, 3).Draw(t, "refuse") / 3
	case "oneway":
		a.Srv = tgt()
		a.N = rapid.IntRange(0, p.N-1).Draw(t, "to")
	case "lossy":
		a.N = rapid.IntRange(0, 1).Draw(t, "on")
	case "crashop":
		a.Srv = tgt()
		a.N = oneOf(t, "nth", 1, 1, 2, 3, 5, 8)
		a.Arg = rapid.IntRange(0, 2).Draw(t, "how")
		a.Set = []int{rapid.IntRange(0, 9).Draw(t, "site")}
	case "addvoter", "addnonvoter", "demote", "remove":
		a.Srv = oneOf(t, "target", -1, -1, -1, -1, 0, 1, 2)
		a.N = rapid.IntRange(0, p.N-1).Draw(t, "member")
		a.Arg = oneOf(t, "prevIndex", 0, 0, 0, 1, 2)
	case "reload":
		a.Srv = tgt()
		a.N = oneOf(t, "hb", 0, 15, 25, 50, 150, 300)
		a.Arg = oneOf(t, "trailing", 0, 0, 1, 3, 11)
	case "transfer":
		a.Srv = oneOf(t, "target", -1, -1, -1, 0, 1)
		a.Arg = rapid.IntRange(0, 1).Draw(t, "toServer")
		a.N = rapid.IntRange(0, p.N-1).Draw(t, "member")
	case "restore":
		a.Srv = oneOf(t, "target", -1, -1, -1, 0)
		a.N = rapid.IntRange(1, 5).Draw(t, "stateSize")
		a.Arg = rapid.IntRange(0, 2).Draw(t, "where")
	}
	return a
}

func seq(n int) []int {
	s := make([]int, n)
	for i := range s {
		s[i] = i
	}
	return s
}

// GenProgram draws a whole program for a profile.
func GenProgram(t *rapid.T, profile string) *Program {
	p := &Program{Profile: profile}
	GenShape(t, p)
	ws := profiles[profile]
	if ws == nil {
		ws = profiles["safety"]
	}
	// most programs let the first election finish before anything else
	if rapid.IntRange(0, 9).Draw(t, "warmup") != 0 {
		p.Actions = append(p.Actions, Action{Op: "tick", Dt: oneOf(t, "warm", 150, 300, 600)})
	}
	n := rapid.IntRange(3, 40).Draw(t, "nActions")
	for i := 0; i < n; i++ {
		p.Actions = append(p.Actions, genAction(t, p, ws))
	}
	p.Lossy = rapid.IntRange(0, 3).Draw(t, "lossy") == 0
	p.Tape = rapid.SliceOfN(rapid.Byte(), 0, 48).Draw(t, "tape")
	return p
}
