package cluster

import (
	"pgregory.net/rapid"
)

type weighted struct {
	op string
	w  int
}

// action mixes per profile
var profiles = map[string][]weighted{
	"safety": {{"apply", 30}, {"tick", 8}, {"isolate", 7}, {"partition", 6}, {"oneway", 3}, {"heal", 9}, {"crash", 6}, {"crashop", 6},
		{"restart", 7}, {"restartall", 1}, {"lossy", 3}, {"snapshot", 3}, {"addvoter", 2}, {"addnonvoter", 1}, {"demote", 1}, {"remove", 2},
		{"transfer", 3}, {"verify", 2}, {"barrier", 2}, {"reload", 2}, {"shutdown", 1}, {"stalesuffix", 1}, {"lagcompact", 1}, {"inheritedtail", 1}, {"join", 2}, {"flakyreads", 3}, {"snapfallback", 3}, {"figure8", 3}},
	"election": {{"apply", 15}, {"tick", 8}, {"isolate", 12}, {"partition", 8}, {"oneway", 5}, {"heal", 12}, {"crash", 6}, {"crashop", 10},
		{"restart", 10}, {"lossy", 6}, {"transfer", 6}, {"reload", 5}, {"addvoter", 1}, {"demote", 1}, {"remove", 2}, {"cutleader", 4}, {"succcrash", 5}, {"doublechange", 5}, {"join", 2}},
	"snapshot": {{"apply", 35}, {"tick", 6}, {"lagcompact", 8}, {"stalesuffix", 6}, {"snapshot", 8}, {"crash", 6}, {"crashop", 6}, {"restart", 8},
		{"isolate", 6}, {"heal", 8}, {"restartall", 2}, {"addvoter", 1}, {"remove", 1}, {"demote", 1}, {"transfer", 2}, {"reload", 2}, {"join", 2}, {"flakyreads", 5}, {"snapcfg", 6}, {"staleis", 4}, {"snapfallback", 5}, {"latesnapshot", 5}},
	"durability": {{"apply", 30}, {"tick", 6}, {"restartall", 6}, {"crash", 8}, {"restart", 10}, {"crashop", 8}, {"isolate", 8}, {"partition", 8},
		{"heal", 10}, {"reload", 4}, {"remove", 1}, {"addvoter", 1}, {"demote", 1}, {"stalesuffix", 4}, {"transfer", 2}, {"lossy", 2}, {"cfgrestart", 5}, {"flakyreads", 3}, {"snapcfg", 4}, {"snapfallback", 5}, {"figure8", 8}, {"latesnapshot", 5}},
	"commit": {{"apply", 35}, {"tick", 6}, {"cutleader", 8}, {"partition", 8}, {"isolate", 4}, {"heal", 10}, {"addvoter", 2}, {"addnonvoter", 2},
		{"demote", 2}, {"remove", 1}, {"crash", 4}, {"restart", 5}, {"barrier", 2}, {"lossy", 4}, {"join", 2}, {"flakyreads", 7}, {"figure8", 5}, {"stalesuffix", 4}},
	"membership": {{"apply", 20}, {"tick", 6}, {"addvoter", 9}, {"addnonvoter", 6}, {"demote", 7}, {"remove", 8}, {"transfer", 6}, {"isolate", 6},
		{"heal", 8}, {"crash", 5}, {"restart", 6}, {"partition", 4}, {"crashop", 4}, {"reload", 2}, {"cutleader", 2}, {"cfgrestart", 3}, {"join", 10}, {"snapcfg", 4}, {"snapshot", 3}, {"doublechange", 6}},
	"clients": {{"apply", 45}, {"tick", 5}, {"barrier", 8}, {"transfer", 6}, {"isolate", 5}, {"heal", 6}, {"remove", 2}, {"demote", 1}, {"crash", 4},
		{"restart", 5}, {"cutleader", 3}, {"lossy", 2}, {"snapshot", 2}, {"inheritedtail", 4}, {"inflightfault", 3}, {"slowtransfer", 4}, {"busydisk", 4}, {"restoreinflight", 3}},
	"verify": {{"verify", 25}, {"cutleader", 10}, {"partition", 8}, {"isolate", 5}, {"heal", 10}, {"apply", 15}, {"lossy", 6}, {"addnonvoter", 2},
		{"demote", 2}, {"tick", 8}, {"transfer", 2}, {"crash", 2}, {"restart", 3}, {"demotecut", 4}, {"lagcompact", 8}, {"remove", 2}, {"removeverify", 6}},
	"converge": {{"apply", 30}, {"tick", 5}, {"stalesuffix", 10}, {"lagcompact", 10}, {"crash", 8}, {"restart", 8}, {"isolate", 8}, {"partition", 8},
		{"heal", 6}, {"snapshot", 5}, {"addvoter", 3}, {"restartall", 2}, {"lossy", 4}, {"crashop", 4}, {"join", 4}, {"flakyreads", 5}, {"succcrash", 8}},
	"futures": {{"apply", 14}, {"barrier", 7}, {"verify", 7}, {"addvoter", 3}, {"addnonvoter", 2}, {"demote", 2}, {"remove", 3}, {"snapshot", 5},
		{"restore", 3}, {"transfer", 6}, {"getconfig", 3}, {"shutdown", 8}, {"aftershutdown", 4}, {"isolate", 5}, {"cutleader", 5}, {"heal", 6},
		{"crash", 2}, {"restart", 5}, {"tick", 8}, {"crashop", 4}, {"inflightfault", 5}, {"slowtransfer", 4}, {"restoreinflight", 5}, {"busydisk", 6}},
	"notify": {{"transfer", 12}, {"cutleader", 8}, {"isolate", 8}, {"heal", 12}, {"remove", 2}, {"demote", 2}, {"apply", 15}, {"slowconsumer", 6},
		{"tick", 10}, {"crash", 3}, {"restart", 5}, {"reload", 3}, {"staleis", 6}, {"lagcompact", 3}},
	"restore": {{"restore", 12}, {"apply", 35}, {"tick", 6}, {"addvoter", 2}, {"demote", 2}, {"remove", 2}, {"isolate", 5}, {"lagcompact", 4}, {"heal", 8},
		{"crash", 3}, {"restart", 4}, {"transfer", 4}, {"snapshot", 3}, {"barrier", 2}, {"stalesuffix", 6}, {"slowtransfer", 6}, {"restoreinflight", 5}},
}

func pick(t *rapid.T, ws []weighted, label string) string {
	total := 0
	for _, w := range ws {
		total += w.w
	}
	x := rapid.IntRange(0, total-1).Draw(t, label)
	for _, w := range ws {
		if x < w.w {
			return w.op
		}
		x -= w.w
	}
	return ws[0].op
}

func oneOf[T any](t *rapid.T, label string, xs ...T) T {
	return xs[rapid.IntRange(0, len(xs)-1).Draw(t, label)]
}

// GenShape draws the cluster record.
func GenShape(t *rapid.T, p *Program) {
	prof := p.Profile
	switch prof {
	case "verify", "commit":
		p.N = oneOf(t, "n", 3, 3, 4, 4, 5, 5)
	case "prevote", "lease":
		p.N = oneOf(t, "n", 3, 3, 3, 5, 5, 4)
	default:
		p.N = oneOf(t, "n", 3, 3, 3, 3, 3, 5, 5, 5, 4, 2, 1)
	}
	flavourMode := oneOf(t, "flavourMode", 0, 0, 0, 0, 1, 1, 2, 2, 3, 4)
	if prof == "restore" {
		flavourMode = oneOf(t, "flavourModeR", 0, 0, 1, 1, 2)
	}
	if prof == "durability" {
		flavourMode = oneOf(t, "flavourModeD", 0, 0, 1, 2, 3, 3, 4)
	}
	hbBase := oneOf(t, "hbBase", 50, 50, 100)
	nvOdds := 6
	if prof == "verify" || prof == "commit" {
		nvOdds = 2
	}
	for i := 0; i < p.N; i++ {
		suf := 0
		if i > 0 && p.N >= 3 && rapid.IntRange(0, nvOdds).Draw(t, "nonvoter") == 0 {
			suf = 1
		} else if i > 0 && p.N >= 3 && prof != "lease" && prof != "leaselong" && prof != "prevote" && prof != "leasejoin" && rapid.IntRange(0, map[bool]int{true: 3, false: 7}[prof == "verify"]).Draw(t, "late") == 0 {
			suf = 2 // joins later with an empty disk
		}
		p.Suffrage = append(p.Suffrage, suf)
		fl := 0
		switch flavourMode {
		case 1:
			fl = 1
		case 2:
			fl = rapid.IntRange(0, 1).Draw(t, "flavour")
		case 3:
			fl = 2
		case 4:
			fl = 3 // commit tracking, staged index visible at once (InmemCommitTrackingStore)
		}
		p.Flavour = append(p.Flavour, fl)
		p.Batching = append(p.Batching, rapid.Bool().Draw(t, "batching"))
		p.ConfStore = append(p.ConfStore, rapid.IntRange(0, 3).Draw(t, "confstore") == 0)
		p.NoPreVote = append(p.NoPreVote, rapid.IntRange(0, 6).Draw(t, "noprevote") == 0)
		f := oneOf(t, "hbFactor", 1, 1, 1, 1, 3)
		if prof == "lease" || prof == "prevote" {
			f = 1
		}
		p.HBms = append(p.HBms, hbBase*f)
		slow := 0
		switch prof {
		case "lease", "leaselong", "prevote", "leasejoin", "notify":
		default:
			slow = oneOf(t, "applyMs", 0, 0, 0, 0, 0, 0, 1, 3, 10)
		}
		p.ApplyMs = append(p.ApplyMs, slow)
	}
	// protocol version 2 (still supported while a cluster is upgraded): everywhere or mixed
	switch prof {
	case "safety", "clients", "futures", "snapshot", "durability", "converge", "commit", "election":
		switch oneOf(t, "protoMode", 0, 0, 0, 0, 0, 0, 0, 1, 2) {
		case 1:
			for range p.Suffrage {
				p.Proto = append(p.Proto, 2)
			}
		case 2:
			for range p.Suffrage {
				p.Proto = append(p.Proto, oneOf(t, "proto", 0, 2))
			}
		}
	}
	// keep at least two voters in multi-server verify/commit shapes
	p.RCL = flavourMode >= 3
	p.LeaseDiv = oneOf(t, "leaseDiv", 1, 1, 2)
	p.MaxAppend = oneOf(t, "maxAppend", 1, 2, 3, 8, 64)
	p.Trailing = oneOf[uint64](t, "trailing", 0, 1, 2, 5, 20, 10240)
	p.SnapThr = oneOf[uint64](t, "snapThr", 2, 5, 20, 8192)
	p.SnapIntMs = oneOf(t, "snapInt", 20, 100, 1000)
	if prof == "snapshot" || prof == "converge" || ((prof == "verify" || prof == "notify") && rapid.Bool().Draw(t, "smallSnapshots")) {
		p.Trailing = oneOf[uint64](t, "trailingS", 0, 1, 2, 5, 20)
		p.SnapThr = oneOf[uint64](t, "snapThrS", 2, 5, 5, 20)
		p.SnapIntMs = oneOf(t, "snapIntS", 20, 100)
	}
	p.BatchCh = rapid.Bool().Draw(t, "batchApplyCh")
	p.ShutRm = rapid.Bool().Draw(t, "shutdownOnRemove")
	p.Pipeline = rapid.Bool().Draw(t, "pipeline")
	p.RPCms = oneOf(t, "rpcTimeout", 100, 100, 30, 200)
	switch prof {
	case "lease", "leaselong", "prevote", "leasejoin": // timing claims stated for an instantaneous network (leasejoin sets its own latency)
	default:
		p.LatencyMs = oneOf(t, "latency", 0, 0, 0, 1, 2, 3)
	}
}

func genAction(t *rapid.T, p *Program, ws []weighted) Action {
	a := Action{Op: pick(t, ws, "op")}
	a.Dt = oneOf(t, "dt", 0, 0, 1, 2, 5, 10, 20, 50, 100, 200, 400)
	tgt := func() int { return oneOf(t, "target", -1, -1, -1, -2, 0, 1, 2, 3, 4) }
	switch a.Op {
	case "apply":
		a.Srv = tgt()
		a.N = oneOf(t, "burst", 1, 1, 2, 3, 5, 10, 20)
		a.Arg = oneOf(t, "enqueueTimeout", 0, 0, 0, 1, 5)
	case "barrier", "verify", "snapshot", "crash", "restart", "isolate", "shutdown", "getconfig", "aftershutdown":
		a.Srv = tgt()
		if a.Op == "restart" {
			a.Arg = oneOf(t, "newestSnapshotUnreadableOnce", 0, 0, 1)
		}
	case "partition":
		k := rapid.IntRange(1, max(1, p.N-1)).Draw(t, "sideSize")
		perm := rapid.Permutation(seq(p.N)).Draw(t, "side")
		a.Set = perm[:k]
		a.Arg = rapid.IntRange(0, 3).Draw(t, "refuse") / 3
	case "oneway":
		a.Srv = tgt()
		a.N = rapid.IntRange(0, p.N-1).Draw(t, "to")
	case "lossy":
		a.N = rapid.IntRange(0, 1).Draw(t, "on")
	case "crashop":
		a.Srv = tgt()
		a.N = oneOf(t, "nth", 1, 1, 2, 3, 5, 8)
		a.Arg = rapid.IntRange(0, 2).Draw(t, "how")
		a.Set = []int{rapid.IntRange(0, 9).Draw(t, "site")}
	case "addvoter", "addnonvoter", "demote", "remove":
		a.Srv = oneOf(t, "target", -1, -1, -1, -1, 0, 1, 2)
		a.N = rapid.IntRange(0, p.N-1).Draw(t, "member")
		a.Arg = oneOf(t, "prevIndex", 0, 0, 0, 1, 2)
	case "reload":
		a.Srv = tgt()
		a.N = oneOf(t, "hb", 0, 15, 25, 50, 150, 300)
		a.Arg = oneOf(t, "trailing", 0, 0, 1, 3, 11)
	case "transfer":
		a.Srv = oneOf(t, "target", -1, -1, -1, 0, 1)
		a.Arg = rapid.IntRange(0, 1).Draw(t, "toServer")
		a.N = rapid.IntRange(0, p.N-1).Draw(t, "member")
	case "restore":
		a.Srv = oneOf(t, "target", -1, -1, -1, 0)
		a.N = rapid.IntRange(1, 5).Draw(t, "stateSize")
		a.Arg = rapid.IntRange(0, 2).Draw(t, "where")
	case "cutleader", "demotecut":
		a.N = rapid.IntRange(0, 2).Draw(t, "keepVoters")
		a.Arg = rapid.IntRange(0, 1).Draw(t, "keepNonvoters")
	case "stalesuffix":
		a.N = oneOf(t, "suffix", 1, 2, 5, 12)
		a.Arg = oneOf(t, "newEntries", 1, 3, 8, 20)
		a.Set = []int{oneOf(t, "flakyReadsOnReturn", 0, 0, 3, 5), 0}
		if p.Profile == "restore" {
			a.Set[1] = oneOf(t, "restoreWhere", 0, 1, 2, 3)
		}
	case "lagcompact":
		a.N = oneOf(t, "writes", 3, 6, 12, 30)
		a.Arg = rapid.IntRange(0, 1).Draw(t, "crashIt")
		a.Set = []int{oneOf(t, "verifyAfterMs", 0, 0, 1, 2, 3, 4, 6)}
	case "flakyreads":
		a.Srv = tgt()
		a.N = oneOf(t, "reads", 10, 20, 40, 80)
		a.Arg = rapid.IntRange(2, 6).Draw(t, "odds")
	case "join":
		a.N = rapid.IntRange(0, 1).Draw(t, "asNonvoter")
		a.Arg = oneOf(t, "joinFault", 0, 0, 1, 1, 1, 2, 3)
	case "inheritedtail":
		a.N = oneOf(t, "tail", 1, 2, 3, 5)
		a.Arg = oneOf(t, "fresh", 1, 2, 3)
	case "snapfallback":
		a.Srv = tgt()
		a.N = rapid.IntRange(0, 3).Draw(t, "gap")
		a.Arg = rapid.IntRange(0, 1).Draw(t, "tailAfter")
	case "busydisk":
		a.N = rapid.IntRange(0, 3).Draw(t, "extraInFlight")
		a.Set = []int{rapid.IntRange(0, 5).Draw(t, "firstCall"), rapid.IntRange(0, 12).Draw(t, "gapMs"), rapid.IntRange(0, 2).Draw(t, "leaves"), rapid.IntRange(0, 1).Draw(t, "snapshotToo")}
	case "restoreinflight":
		a.N = rapid.IntRange(0, 4).Draw(t, "extraInFlight")
		a.Arg = rapid.IntRange(0, 2).Draw(t, "where")
		a.Set = []int{oneOf(t, "membershipInFlight", 0, 0, 1, 2, 3), oneOf(t, "acksLostInsteadOfCut", 0, 1)}
	case "slowtransfer":
		a.N = oneOf(t, "afterMs", 0, 1, 5, 20)
		a.Arg = rapid.IntRange(0, 3).Draw(t, "call")
	case "staleis":
		a.N = oneOf(t, "writes", 3, 6, 12)
	case "doublechange":
		a.N = rapid.IntRange(0, 4).Draw(t, "first")
		a.Arg = rapid.IntRange(0, 3).Draw(t, "kinds")
	case "removeverify":
		a.N = rapid.IntRange(0, 3).Draw(t, "who")
		a.Arg = rapid.IntRange(0, 3).Draw(t, "slow")
		a.Set = []int{rapid.IntRange(0, 1).Draw(t, "addInstead")}
	case "succcrash":
		a.N = rapid.IntRange(0, 1).Draw(t, "laggard")
		a.Arg = rapid.IntRange(0, 3).Draw(t, "lagBy")
	case "latesnapshot":
		a.N = oneOf(t, "writes", 3, 6, 12)
		a.Arg = rapid.IntRange(0, 3).Draw(t, "linger")
	case "inflightfault":
		a.N = oneOf(t, "inflight", 1, 2, 3, 5)
		a.Arg = rapid.IntRange(0, 5).Draw(t, "membership")
	case "snapcfg":
		a.N = oneOf(t, "burst", 2, 3, 5, 10)
		a.Arg = rapid.IntRange(0, 3).Draw(t, "change")
		a.Set = []int{rapid.IntRange(0, p.N-1).Draw(t, "member"), oneOf(t, "busyLead", 0, 0, 1, 2, 3)}
	case "figure8":
		a.N = rapid.IntRange(0, 5).Draw(t, "ending")
		a.Arg = rapid.IntRange(0, 1).Draw(t, "interimWrites")
		a.Set = []int{oneOf(t, "extraBatches", 0, 0, 0, 1)}
	case "cfgrestart":
		a.N = oneOf(t, "writes", 0, 1, 1, 2, 3)
		a.Arg = rapid.IntRange(0, 3).Draw(t, "change")
		a.Set = []int{rapid.IntRange(0, p.N-1).Draw(t, "member")}
	case "slowconsumer":
		a.Srv = tgt()
		a.N = oneOf(t, "delayMs", 0, 1, 5, 20) // Config.NotifyCh must be "aggressively consumed": raft blocks on it by design
	}
	return a
}

func seq(n int) []int {
	s := make([]int, n)
	for i := range s {
		s[i] = i
	}
	return s
}

// GenProgram draws a whole program for a profile.
func GenProgram(t *rapid.T, profile string) *Program {
	p := &Program{Profile: profile}
	GenShape(t, p)
	switch profile {
	case "lease":
		genLease(t, p)
		return p
	case "leaselong":
		genLeaseLong(t, p)
		return p
	case "prevote":
		genPreVote(t, p)
		return p
	case "leasejoin":
		genLeaseJoin(t, p)
		return p
	}
	ws := profiles[profile]
	if ws == nil {
		ws = profiles["safety"]
	}
	// most programs let the first election finish before anything else
	if rapid.IntRange(0, 9).Draw(t, "warmup") != 0 {
		p.Actions = append(p.Actions, Action{Op: "tick", Dt: oneOf(t, "warm", 150, 300, 600)})
	}
	n := rapid.IntRange(3, 40).Draw(t, "nActions")
	for i := 0; i < n; i++ {
		p.Actions = append(p.Actions, genAction(t, p, ws))
	}
	if profile == "restore" {
		// the claims are about one Restore (at most two) under concurrency and
		// follower lag, not about chains of restores across leader changes
		seen := 0
		kept := p.Actions[:0]
		for _, a := range p.Actions {
			if a.Op == "restore" {
				seen++
				if seen > 2 {
					a = Action{Op: "apply", Srv: -1, N: 3, Dt: a.Dt}
				}
			}
			kept = append(kept, a)
		}
		p.Actions = kept
	}
	lossyOdds := 3
	if profile == "election" || profile == "verify" {
		lossyOdds = 1
	}
	p.Lossy = rapid.IntRange(0, lossyOdds).Draw(t, "lossy") == 0
	p.Tape = rapid.SliceOfN(rapid.Byte(), 0, 48).Draw(t, "tape")
	if profile == "futures" && rapid.Bool().Draw(t, "longQuiet") {
		p.QuietMs = 14000
	}
	return p
}

// genLease: cut the leader from its majority at a drawn instant, watch it.
func genLease(t *rapid.T, p *Program) {
	p.Actions = append(p.Actions, Action{Op: "tick", Dt: oneOf(t, "warm", 300, 600)})
	rounds := rapid.IntRange(1, 3).Draw(t, "rounds")
	for i := 0; i < rounds; i++ {
		if rapid.Bool().Draw(t, "traffic") {
			p.Actions = append(p.Actions, Action{Op: "apply", Srv: -1, N: oneOf(t, "burst", 1, 3, 10), Dt: rapid.IntRange(0, 30).Draw(t, "dt")})
		}
		if rapid.IntRange(0, 2).Draw(t, "failedTransferFirst") == 0 {
			// a leadership transfer that fails slowly (target cut off and behind): the leader stays
			p.Actions = append(p.Actions, Action{Op: "slowtransfer", Dt: rapid.IntRange(0, 60).Draw(t, "transferAt"), N: 1, Arg: 1})
			p.Actions = append(p.Actions, Action{Op: "tick", Dt: oneOf(t, "afterTransfer", 100, 300)})
		}
		cut := "cutleader"
		switch rapid.IntRange(0, 4).Draw(t, "selfDemotion") {
		case 0:
			cut = "demotecut"
		case 1:
			cut = "suffragecut" // a follower is demoted under this leader first, and stays on its side of the cut
		}
		if rapid.IntRange(0, 3).Draw(t, "outageFirst") == 0 {
			// a voter comes back from a long outage and the leader's majority then depends on it (C13/R2)
			p.Actions = append(p.Actions, Action{Op: "outagecut", Dt: rapid.IntRange(0, 60).Draw(t, "outageAt"), N: rapid.IntRange(0, 3).Draw(t, "who"), Arg: rapid.IntRange(0, 3).Draw(t, "outage")})
			p.Actions = append(p.Actions, Action{Op: "tick", Dt: oneOf(t, "afterOutage", 300, 600)})
		}
		p.Actions = append(p.Actions, Action{Op: cut, Dt: rapid.IntRange(0, 120).Draw(t, "cutAt"),
			N: rapid.IntRange(0, 2).Draw(t, "keepVoters"), Arg: rapid.IntRange(0, 1).Draw(t, "keepNonvoters")})
		p.Actions = append(p.Actions, Action{Op: "tick", Dt: oneOf(t, "watch", 150, 300, 500)})
		p.Actions = append(p.Actions, Action{Op: "heal", Dt: 0})
		p.Actions = append(p.Actions, Action{Op: "tick", Dt: oneOf(t, "recover", 300, 600, 1000)})
	}
}

// genLeaseJoin: a fault-free run over a network with latency in which fresh
// servers are added as voters at drawn instants (C13/R2: the lease check must
// not depose a leader whose majority keeps responding - a voter that has just
// been added has not had the time to respond yet).
func genLeaseJoin(t *rapid.T, p *Program) {
	voters := oneOf(t, "initialVoters", 1, 1, 1, 2, 3)
	joiners := rapid.IntRange(1, 2).Draw(t, "joiners")
	p.N = voters + joiners
	hb := p.HBms[0]
	p.Suffrage, p.Flavour, p.Batching, p.ConfStore, p.NoPreVote, p.HBms = nil, nil, nil, nil, nil, nil
	for i := 0; i < p.N; i++ {
		suf := 0
		if i >= voters {
			suf = 2
		}
		p.Suffrage = append(p.Suffrage, suf)
		p.Flavour = append(p.Flavour, 0)
		p.Batching = append(p.Batching, false)
		p.ConfStore = append(p.ConfStore, false)
		p.NoPreVote = append(p.NoPreVote, false)
		p.HBms = append(p.HBms, hb)
	}
	p.RCL = false
	p.LatencyMs = oneOf(t, "latencyJ", 1, 2, 3, 5)
	p.SnapThr, p.Trailing = 8192, 10240
	p.Actions = append(p.Actions, Action{Op: "tick", Dt: 1000})
	lease := hb / p.LeaseDiv
	for j := 0; j < joiners; j++ {
		if rapid.Bool().Draw(t, "traffic") {
			p.Actions = append(p.Actions, Action{Op: "apply", Srv: -1, N: oneOf(t, "burst", 1, 3), Dt: 5})
		}
		if rapid.IntRange(0, 2).Draw(t, "viaNonvoter") == 0 {
			// added as a non-voter first, promoted later under the same leader
			p.Actions = append(p.Actions, Action{Op: "join", N: 1, Dt: rapid.IntRange(0, 2*lease).Draw(t, "phase")})
			p.Actions = append(p.Actions, Action{Op: "tick", Dt: oneOf(t, "settleN", 100, 300)})
			p.Actions = append(p.Actions, Action{Op: "addvoter", Srv: -1, N: voters + j, Dt: rapid.IntRange(0, 2*lease).Draw(t, "phaseP")})
		} else {
			p.Actions = append(p.Actions, Action{Op: "join", N: 0, Dt: rapid.IntRange(0, 2*lease).Draw(t, "phase")})
		}
		p.Actions = append(p.Actions, Action{Op: "tick", Dt: oneOf(t, "settle", 200, 400)})
	}
	p.Actions = append(p.Actions, Action{Op: "tick", Dt: 500})
	p.QuietMs = 500
}

// genLeaseLong: a long fault-free run (C13/R2).
func genLeaseLong(t *rapid.T, p *Program) {
	for i := range p.NoPreVote {
		p.NoPreVote[i] = false
	}
	total := oneOf(t, "seconds", 60, 60, 120, 300, 600)
	if rapid.IntRange(0, 2).Draw(t, "shortLease") == 0 {
		// a lease well below the heartbeat interval (legitimate: >= 5 ms and <= HeartbeatTimeout):
		// between two heartbeats (10-20 ms apart here) the leader hears from its followers only
		// through the answers to the replication routine's idle probes, every CommitTimeout (5-10 ms)
		for i := range p.HBms {
			p.HBms[i] = 100
		}
		p.LeaseDiv = 8
		total = oneOf(t, "secondsS", 60, 120)
	}
	p.Actions = append(p.Actions, Action{Op: "tick", Dt: 1000})
	traffic := rapid.Bool().Draw(t, "traffic")
	chunks := 20
	for i := 0; i < chunks; i++ {
		a := Action{Op: "tick", Dt: total * 1000 / chunks}
		if traffic {
			a = Action{Op: "apply", Srv: -1, N: oneOf(t, "burst", 1, 2, 5), Dt: total * 1000 / chunks}
		}
		p.Actions = append(p.Actions, a)
	}
	p.QuietMs = 1000
	p.SnapThr = 8192
	p.Trailing = 10240
}

// genPreVote: isolate a minority for a long time, reconnect, watch.
func genPreVote(t *rapid.T, p *Program) {
	p.Actions = append(p.Actions, Action{Op: "tick", Dt: oneOf(t, "warm", 300, 600)})
	rounds := rapid.IntRange(1, 2).Draw(t, "rounds")
	hb := p.HBms[0]
	for i := 0; i < rounds; i++ {
		if rapid.Bool().Draw(t, "traffic") {
			p.Actions = append(p.Actions, Action{Op: "apply", Srv: -1, N: oneOf(t, "burst", 1, 3, 10), Dt: 5})
		}
		maxIso := (p.N - 1) / 2
		if maxIso < 1 {
			maxIso = 1
		}
		k := rapid.IntRange(1, maxIso).Draw(t, "isolated")
		perm := rapid.Permutation(seq(p.N)).Draw(t, "who")
		p.Actions = append(p.Actions, Action{Op: "isolatemin", Set: perm[:k], Dt: rapid.IntRange(0, 100).Draw(t, "at"), Arg: oneOf(t, "muteAndTransfer", 0, 0, 0, 1)})
		length := oneOf(t, "timeouts", 5, 8, 12, 20, 50, 200)
		if rapid.Bool().Draw(t, "trafficDuring") {
			p.Actions = append(p.Actions, Action{Op: "apply", Srv: -1, N: oneOf(t, "burst2", 1, 5, 20), Dt: hb * 3})
		}
		p.Actions = append(p.Actions, Action{Op: "tick", Dt: hb * length})
		p.Actions = append(p.Actions, Action{Op: "rejoin", Dt: rapid.IntRange(0, 50).Draw(t, "rejoinAt")})
		p.Actions = append(p.Actions, Action{Op: "tick", Dt: hb * 14})
	}
}
