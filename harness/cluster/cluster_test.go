package cluster

import (
	"bufio"
	"encoding/json"
	"fmt"
	"os"
	"path/filepath"
	"regexp"
	"sort"
	"strings"
	"testing"
	"time"

	"pgregory.net/rapid"

	"verif/harness/rep"
	"verif/harness/sim"
)

// known findings (read-only at run time): signature -> text
func loadKnown() map[string]string {
	out := map[string]string{}
	f, err := os.Open(os.Getenv("VERIF_KNOWN"))
	if err != nil {
		return out
	}
	defer f.Close()
	re := regexp.MustCompile(`^known:\s+property=(\S+)\s+sig=(\S+)\s+(.*)$`)
	sc := bufio.NewScanner(f)
	for sc.Scan() {
		if m := re.FindStringSubmatch(strings.TrimSpace(sc.Text())); m != nil {
			out[m[1]+" "+m[2]] = m[3]
		}
	}
	return out
}

type outcome struct {
	r        *Runner
	viol     []sim.Violation
	leftover string
	wall     time.Duration
	virtual  int64
}

// execute runs one program in a fresh bubble.
func execute(t *testing.T, p *Program, debug bool) *outcome {
	o := &outcome{}
	start := time.Now()
	// an unrecovered panic inside the library takes the process down: the program
	// being executed is on disk before it starts (the driver keeps it with the log)
	_ = os.WriteFile(fmt.Sprintf("%s/current-program-%s-%d.json", rep.OutDir(), p.Profile, rep.Shard()), p.JSON(), 0o644)
	o.leftover = sim.Bubble(t, func() {
		o.r = NewRunner(p, RunOpts{Debug: debug})
		o.r.Run()
		o.virtual = o.r.W.Now()
	})
	o.wall = time.Since(start)
	o.viol = o.r.W.Violations()
	return o
}

type replayFile struct {
	Property string          `json:"property"`
	Engine   string          `json:"engine"`
	Test     string          `json:"test"`
	Profile  string          `json:"profile"`
	Program  *Program        `json:"program"`
	Verdict  sim.Violation   `json:"verdict"`
	Others   []sim.Violation `json:"other_violations,omitempty"`
	Repro    map[string]int  `json:"repro"`
	Minimal  *Program        `json:"minimised_program,omitempty"`
	Ops      []*ClientOp     `json:"client_ops,omitempty"`
	History  []sim.Event     `json:"history,omitempty"`
}

func hasSig(vs []sim.Violation, prop, sig string) *sim.Violation {
	for i := range vs {
		if vs[i].Property == prop && vs[i].Sig == sig {
			return &vs[i]
		}
	}
	return nil
}

// investigate measures the reproduction rate of a violation and minimises the
// program with a bounded delta-debugging pass.
func investigate(t *testing.T, p *Program, v sim.Violation, budget int) (runs, hits int, min *Program) {
	try := func(q *Program, n int) int {
		h := 0
		for i := 0; i < n && budget > 0; i++ {
			budget--
			runs++
			if hasSig(execute(t, q, false).viol, v.Property, v.Sig) != nil {
				h++
				hits++
			}
		}
		return h
	}
	if try(p, 4) == 0 {
		return runs, hits, nil
	}
	cur := *p
	cur.Actions = append([]Action(nil), p.Actions...)
	for i := len(cur.Actions) - 1; i >= 0 && budget > 0; i-- {
		cand := cur
		cand.Actions = append(append([]Action(nil), cur.Actions[:i]...), cur.Actions[i+1:]...)
		if try(&cand, 2) > 0 {
			cur = cand
		}
	}
	if cur.Lossy && budget > 0 {
		cand := cur
		cand.Lossy = false
		if try(&cand, 2) > 0 {
			cur = cand
		}
	}
	return runs, hits, &cur
}

func saveReplay(prop string, profile string, p *Program, o *outcome, v sim.Violation, runs, hits int, min *Program) string {
	rf := replayFile{Property: v.Property, Engine: "cluster", Test: "TestClusterReplay", Profile: profile, Program: p, Verdict: v, Repro: map[string]int{"runs": runs, "hits": hits}, Minimal: min}
	for _, x := range o.viol {
		if x.Sig != v.Sig {
			rf.Others = append(rf.Others, x)
		}
	}
	o.r.W.Mu.Lock()
	rf.Ops = o.r.Ops
	ev := o.r.W.Events
	if len(ev) > 6000 {
		ev = ev[len(ev)-6000:]
	}
	rf.History = ev
	o.r.W.Mu.Unlock()
	name := fmt.Sprintf("%s-%s-%d-%d.json", v.Property, sanitize(v.Sig), os.Getpid(), time.Now().UnixNano()%1000000)
	path := filepath.Join(rep.ReplayDir(), name)
	b, _ := json.Marshal(rf)
	_ = os.WriteFile(path, b, 0o644)
	return path
}

func sanitize(s string) string {
	return regexp.MustCompile(`[^A-Za-z0-9]+`).ReplaceAllString(s, "_")
}

// classify derives the class labels and the non-trivial verdict for a property.
func classify(prop string, o *outcome) (nontrivial bool, feature uint64, classes []string) {
	r := o.r
	st := r.W.O.Stats
	f := r.Feat
	has := func(k string) bool { return f[k] > 0 || st[k] > 0 }
	anyPrefix := func(m map[string]int, pre string) bool {
		for k, v := range m {
			if v > 0 && strings.HasPrefix(k, pre) {
				return true
			}
		}
		return false
	}
	fault := has("isolate") || has("partition") || has("oneway-cut") || has("crash") || has("msg-dropped") || has("msg-delayed") || anyPrefix(f, "fault:")
	add := func(c bool, name string) {
		if c {
			classes = append(classes, name)
		}
	}
	add(fault, "fault")
	add(has("crash"), "crash")
	add(anyPrefix(f, "fault:"), "store-fault-or-crash-at-op")
	add(has("partition") || has("isolate"), "partition")
	add(st["leader"] >= 2, "leader-change")
	add(has("install-snapshot"), "install-snapshot")
	add(has("fsm-restore"), "fsm-restore")
	add(has("restart"), "restart")
	add(has("membership-ok"), "membership-change")
	add(has("msg-duplicated"), "msg-duplicated")
	add(has("transfer"), "transfer")
	add(anyPrefix(st, "snapshot@takeSnapshot"), "local-snapshot")
	add(has("user-restore-snapshot"), "user-restore")
	add(has("verify-ok"), "verify-ok")
	add(has("apply-definite-failure"), "apply-definite-failure")
	add(anyPrefix(f, "apply-ambiguous"), "apply-ambiguous")
	add(o.leftover != "", "leftover-goroutines")
	add(r.P.LatencyMs > 0, "link-latency")
	slowFSM := false
	for _, d := range r.P.ApplyMs {
		slowFSM = slowFSM || d > 0
	}
	add(slowFSM, "slow-fsm")
	add(len(r.P.Proto) > 0, "protocol-version-2-servers")
	add(has("fresh-server-joins"), "fresh-server-joins")
	add(has("newest-snapshot-unreadable-at-start-up"), "newest-snapshot-unreadable-at-start-up")
	add(has("leader-with-a-slow-disk-leaves-with-calls-in-flight"), "leader-with-a-slow-disk")
	add(has("restore-with-a-membership-change-in-flight"), "restore-refused-with-calls-in-flight")
	add(has("follower-demoted-before-the-cut"), "follower-demoted-before-the-cut")
	add(has("snapshot-requested-of-a-busy-state-machine"), "snapshot-requested-of-a-busy-state-machine")
	add(anyPrefix(f, "log-read-error@"), "log-read-errors")
	add(has("stale-installsnapshot-from-a-deposed-leader"), "stale-installsnapshot-from-a-deposed-leader")
	add(has("client-call-during-a-slow-leadership-transfer"), "client-call-during-a-slow-leadership-transfer")
	add(anyPrefix(f, "restore-refused:"), "restore-refused")
	add(has("restore-refused:"+shortErr("leadership transfer in progress")), "restore-refused-during-transfer")
	add(has("verify-while-a-snapshot-is-in-flight"), "verify-while-a-snapshot-is-in-flight")
	add(has("acked-entry-applied-in-one-batch-behind-an-inherited-command"), "acked-entry-batched-behind-inherited-command")
	add(has("apply-ok"), "apply-ok")
	for _, k := range []string{"server-added-while-verifyleader-waits", "second-membership-change-requested-while-the-first-cannot-commit", "server-removed-while-verifyleader-waits-for-its-answer", "successor-crashed-before-catching-up-its-voter", "leader-keeps-a-bare-majority-through-a-voter-back-from-a-long-outage", "old-installsnapshot-copy-reaches-a-restarted-follower", "figure8-leader-again-with-old-term-tail", "figure8-old-term-entries-on-a-majority-without-the-new-terms-no-op", "figure8-overwriting-leader-elected"} {
		add(has(k), k)
	}
	switch prop {
	case "C01":
		nontrivial = st["leader"] >= 2 && fault
	case "C02":
		nontrivial = (has("fsm-restore") || has("install-snapshot")) && st["leader"] >= 2
	case "C03":
		nontrivial = st["leader"] >= 2 && has("apply-ok") && (has("restart") || has("partition") || has("isolate"))
	case "C04":
		nontrivial = anyPrefix(st, "delete@appendEntries") || has("install-snapshot") || (st["leader"] >= 2 && fault)
		add(anyPrefix(st, "delete@appendEntries"), "conflict-truncation")
	case "C10":
		nontrivial = has("restart") && (has("crash") || anyPrefix(f, "fault:"))
	case "C05":
		nontrivial = has("apply-ok") && fault
	case "C07":
		nontrivial = has("leader-config-append") && (st["leader"] >= 2 || fault)
	case "C08":
		nontrivial = has("apply-definite-failure") || anyPrefix(f, "apply-ambiguous")
	case "C11":
		nontrivial = has("install-snapshot") || (anyPrefix(st, "snapshot@") && has("crash"))
	case "C09":
		nontrivial = has("verify") && (has("cutleader") || has("partition") || has("isolate"))
		add(has("cutleader-keeps-nonvoters"), "leader-side-has-nonvoters")
	case "C12":
		nontrivial = has("quiet:restarted-server") || has("stale-suffix-built") || has("lagging-follower-behind-compaction") || has("install-snapshot") || (has("membership-ok") && fault)
		add(has("stale-suffix-built"), "stale-suffix")
		add(has("lagging-follower-behind-compaction"), "lagging-follower-behind-compaction")
	case "C13":
		if r.P.Profile == "leaselong" {
			nontrivial = o.virtual >= 100*int64(r.P.HBms[0]/r.P.LeaseDiv)
			add(true, "long-fault-free-run")
		} else if r.P.Profile == "leasejoin" {
			nontrivial = has("fresh-server-joins") && has("membership-ok")
			add(true, "fault-free-run-with-new-voters")
		} else {
			nontrivial = has("cutleader-keeps-a-peer") && has("lease-stepdown")
			add(has("cutleader-keeps-nonvoters"), "leader-side-has-nonvoters")
			add(has("lease-stepdown"), "lease-stepdown")
		}
	case "C14":
		nontrivial = has("isolation>=5-election-timeouts") && has("rejoin")
		add(has("rejoined-as-follower"), "rejoined-as-follower")
	case "C17":
		nontrivial = has("shutdown") || has("cutleader") || has("calls-after-shutdown")
		add(has("calls-after-shutdown"), "calls-after-shutdown")
		add(has("shutdown"), "shutdown")
	case "C18":
		nontrivial = has("notify:>=3-transitions")
		add(has("slowconsumer"), "slow-consumer")
	case "C20":
		nontrivial = has("user-restore-snapshot") && (has("aborted-by-restore") || has("install-snapshot") || fault)
		add(has("aborted-by-restore"), "in-flight-aborted-by-restore")
		add(has("user-restore-ok"), "user-restore-ok")
	default:
		nontrivial = fault
	}
	feature = rep.Hash(strings.Join(r.W.O.LeaderSeq, ","), fmt.Sprint(sortedFeat(f)), st["install-snapshot"], st["fsm-restore"], st["restart"], r.P.N, r.P.Flavour)
	return
}

func sortedFeat(m map[string]int) []string {
	var ks []string
	for k, v := range m {
		ks = append(ks, fmt.Sprintf("%s=%d", k, v))
	}
	sort.Strings(ks)
	return ks
}

// runProfile is the body of every cluster check.
func runProfile(t *testing.T, prop, profile string) {
	r := rep.New(prop, profile)
	r.Extra("test", t.Name())
	defer r.Flush()
	known := loadKnown()
	var walls time.Duration
	var virt int64
	rapid.Check(t, func(rt *rapid.T) {
		if r.Frozen() {
			return
		}
		p := GenProgram(rt, profile)
		o := execute(t, p, false)
		walls += o.wall
		virt += o.virtual
		if o.r.Aborted != "" {
			r.Class("aborted:"+o.r.Aborted, 1)
		}
		nt, feat, classes := classify(prop, o)
		r.Case(nt, feat, classes...)
		if nt && r.WantSample() {
			r.Sample(map[string]any{"program": p.Brief(), "leaders": o.r.W.O.LeaderSeq, "virtual_ms": o.virtual, "client_ops": len(o.r.Ops), "stats": o.r.W.O.Stats})
		}
		o.r.W.Mu.Lock()
		tainted := o.r.W.O.Tainted()
		o.r.W.Mu.Unlock()
		if tainted {
			// a user Restore replaced a server's state without completing:
			// excluded by construction, counted - except for what is wrong
			// with that very Restore (a refused call that took effect)
			r.Class("excluded:restore-did-not-complete", 1)
			kept := o.viol[:0:0]
			for _, v := range o.viol {
				if v.Sig == "C20/R5/restore-performed-during-a-leadership-transfer" || v.Sig == "C20/R5/refused-restore-aborted-calls-in-flight" {
					kept = append(kept, v)
				}
			}
			if len(kept) == 0 {
				return
			}
			o.viol = kept
		}
		var fresh []sim.Violation
		for _, v := range o.viol {
			if _, ok := known[v.Property+" "+v.Sig]; ok {
				r.Excluded(v.Sig)
				r.Violate(v.Property, v.Rule, v.Sig, v.Detail, "")
				continue
			}
			fresh = append(fresh, v)
		}
		if len(fresh) == 0 {
			return
		}
		v := fresh[0]
		runs, hits, min := investigate(t, p, v, rep.Scale(40, 120))
		path := saveReplay(prop, profile, p, o, v, runs, hits, min)
		detail := fmt.Sprintf("%s\n  reproduction: %d of %d re-executions; program:\n%s", v.Detail, hits, runs, p.String())
		if min != nil {
			detail += "  minimised program:\n" + min.String()
		}
		r.Violate(v.Property, v.Rule, v.Sig, detail, path)
		for _, x := range fresh[1:] {
			r.Violate(x.Property, x.Rule, x.Sig, x.Detail, path)
		}
		r.Freeze()
		rt.Fatalf("%s %s: %s", v.Property, v.Sig, v.Detail)
	})
	r.Extra("wall_s_in_cases", walls.Seconds())
	r.Extra("virtual_s", float64(virt)/1000)
}

func TestClusterSafety(t *testing.T) { runProfile(t, envOr("VERIF_PROP", "C01"), "safety") }

// one check per property; every oracle runs in every profile
func TestC01(t *testing.T)     { runProfile(t, "C01", "election") }
func TestC02(t *testing.T)     { runProfile(t, "C02", "snapshot") }
func TestC03(t *testing.T)     { runProfile(t, "C03", "durability") }
func TestC04(t *testing.T)     { runProfile(t, "C04", "safety") }
func TestC10(t *testing.T)     { runProfile(t, "C10", "durability") }
func TestC05(t *testing.T)     { runProfile(t, "C05", "commit") }
func TestC07(t *testing.T)     { runProfile(t, "C07", "membership") }
func TestC08(t *testing.T)     { runProfile(t, "C08", "clients") }
func TestC09(t *testing.T)     { runProfile(t, "C09", "verify") }
func TestC11(t *testing.T)     { runProfile(t, "C11", "snapshot") }
func TestC12(t *testing.T)     { runProfile(t, "C12", "converge") }
func TestC12Join(t *testing.T) { runProfile(t, "C12", "membership") }
func TestC13(t *testing.T)     { runProfile(t, "C13", "lease") }
func TestC13Long(t *testing.T) { runProfile(t, "C13", "leaselong") }
func TestC13Join(t *testing.T) { runProfile(t, "C13", "leasejoin") }
func TestC14(t *testing.T)     { runProfile(t, "C14", "prevote") }
func TestC17(t *testing.T)     { runProfile(t, "C17", "futures") }
func TestC18(t *testing.T)     { runProfile(t, "C18", "notify") }
func TestC20(t *testing.T)     { runProfile(t, "C20", "restore") }

func envOr(k, d string) string {
	if v := os.Getenv(k); v != "" {
		return v
	}
	return d
}

// TestClusterReplay re-executes a saved program several times and reports how
// often the recorded verdict reproduces.
func TestClusterReplay(t *testing.T) {
	path := os.Getenv("VERIF_REPLAY")
	if path == "" {
		t.Skip("no VERIF_REPLAY")
	}
	b, err := os.ReadFile(path)
	if err != nil {
		t.Fatal(err)
	}
	var rf replayFile
	if err := json.Unmarshal(b, &rf); err != nil {
		t.Fatal(err)
	}
	progs := []*Program{rf.Program}
	if rf.Minimal != nil {
		progs = append(progs, rf.Minimal)
	}
	hits := 0
	const R = 10
	for _, p := range progs {
		for i := 0; i < R; i++ {
			o := execute(t, p, os.Getenv("DEBUG") != "")
			if v := hasSig(o.viol, rf.Verdict.Property, rf.Verdict.Sig); v != nil {
				hits++
				if hits == 1 {
					fmt.Printf("REPLAY-VIOLATION property=%s signature=%s %s\n", v.Property, v.Sig, v.Detail)
				}
			}
		}
	}
	fmt.Printf("REPLAY-INFO reproduced %d of %d re-executions (recorded: %v)\n", hits, R*len(progs), rf.Repro)
	if hits == 0 {
		fmt.Printf("REPLAY-OK property=%s (no violation in %d re-executions on this tree)\n", rf.Property, R*len(progs))
	}
}
