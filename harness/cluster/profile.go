package cluster

import (
	"fmt"
	"time"

	"github.com/hashicorp/raft"

	"verif/harness/sim"
)

// ---------------------------------------------------------------------------
// Profile state

type leaseCut struct {
	in        *sim.Instance
	t0        int64 // ms: instant the cut took effect
	lease     time.Duration
	steppedAt int64
	probed    bool
	cancelled bool
	epoch     int64 // healEpoch when the cut took effect
	term      uint64
	voters    map[string]bool // voters of the leader's latest configuration when the cut took effect (filled lazily)
}

type isoRec struct {
	in    *sim.Instance
	term  uint64
	since int64
	tn    int // TimeoutNow requests delivered to it while isolated
	ahead bool
	muted bool // it still hears the others (and may adopt their term)
}

type rejoinRec struct {
	at      int64
	leader  string
	term    uint64
	servers []string
	checked bool
}

// execMacro runs the structured macro-actions.
func (r *Runner) execMacro(a Action) {
	w := r.W
	switch a.Op {
	case "cutleader":
		// cut the leader from a majority: it keeps a.N voters (fewer than it
		// needs) and, if a.Arg==1, every non-voter.
		li, L := r.leader()
		if L == nil {
			return
		}
		cfg := r.cfgOf(L)
		var voters, nonvoters []string
		for _, s := range cfg.Servers {
			if string(s.ID) == r.ids[li] {
				continue
			}
			if s.Suffrage == raft.Voter {
				voters = append(voters, string(s.ID))
			} else {
				nonvoters = append(nonvoters, string(s.ID))
			}
		}
		leaderVotes := 0
		for _, s := range cfg.Servers {
			if string(s.ID) == r.ids[li] && s.Suffrage == raft.Voter {
				leaderVotes = 1
			}
		}
		quorum := (len(voters)+leaderVotes)/2 + 1
		if leaderVotes >= quorum {
			// the leader alone is a majority of the voters: nothing to lose
			r.exec(Action{Op: "isolate", Srv: li})
			return
		}
		keep := a.N
		if keep > quorum-1-leaderVotes {
			keep = quorum - 1 - leaderVotes // one voter short of a majority, the leader's own vote (if it has one) included
		}
		if keep < 0 {
			keep = 0
		}
		side := map[string]bool{r.ids[li]: true}
		for i := 0; i < keep && i < len(voters); i++ {
			side[voters[i]] = true
		}
		if a.Arg == 1 {
			for _, n := range nonvoters {
				side[n] = true
			}
		}
		w.Mu.Lock()
		for _, x := range r.ids {
			for _, y := range r.ids {
				if side[x] != side[y] {
					r.cut[[2]string{x, y}] = true
				}
			}
		}
		r.lastFaultMs = w.Now()
		r.leaseCuts = append(r.leaseCuts, &leaseCut{in: L, t0: w.Now(), lease: L.Conf.LeaderLeaseTimeout, term: L.R.CurrentTerm(), epoch: r.healEpoch.Load()})
		w.EvLocked(sim.Event{Kind: "cutleader", Srv: L.ID(), S: fmt.Sprint(keys(side))})
		w.Mu.Unlock()
		r.feat("cutleader")
		if len(side) > 1 {
			r.feat("cutleader-keeps-a-peer")
		}
		if a.Arg == 1 && len(nonvoters) > 0 {
			r.feat("cutleader-keeps-nonvoters")
		}
	case "outagecut":
		// a voter A is unreachable for seconds and comes back; shortly afterwards
		// the leader loses other voters, so that its majority now depends on A.
		// The leader can reach a majority of voters at every instant: the lease
		// check must not depose it (C13: "a leader whose majority keeps responding
		// is never deposed by the lease check")
		li, L := r.leader()
		if L == nil || r.stillCut(L.ID()) {
			return
		}
		var others []int
		leaderVotes := false
		for _, s := range r.cfgOf(L).Servers {
			for i, id := range r.ids {
				if string(s.ID) != id || s.Suffrage != raft.Voter {
					continue
				}
				if i == li {
					leaderVotes = true
				} else if r.live(i) != nil {
					others = append(others, i)
				}
			}
		}
		if !leaderVotes || len(others) < 2 || len(r.cfgOf(L).Servers) != len(others)+1 {
			return // claimed for configurations of live voters only, three or more
		}
		ai := others[a.N%len(others)]
		if r.P.NoPreVote[ai] {
			return // without pre-vote the returning server deposes the leader by its term, not by the lease
		}
		termL := L.R.CurrentTerm()
		r.exec(Action{Op: "isolate", Srv: ai})
		outage := []int{2000, 5000, 8000, 12000}[a.Arg%4]
		w.Advance(time.Duration(outage)*time.Millisecond, r.sample)
		if r.live(li) != L || L.R.State() != raft.Leader || L.R.CurrentTerm() != termL || r.live(ai) == nil {
			r.exec(Action{Op: "heal"})
			return
		}
		r.exec(Action{Op: "heal"})
		// (a heartbeat sent into the cut just before the heal is lost and waits out the
		// transport's time-out; the next one follows after at most HeartbeatTimeout/2)
		settle := time.Duration(r.P.RPCms)*time.Millisecond + L.Conf.HeartbeatTimeout + time.Duration(a.Dt%4)*L.Conf.HeartbeatTimeout/2
		w.Advance(settle, r.sample)
		if r.live(li) != L || L.R.State() != raft.Leader || L.R.CurrentTerm() != termL || L.R.VerifLeadershipTransferInProgress() {
			return
		}
		for _, o := range others {
			if in := r.live(o); in == nil || in.R.CurrentTerm() != termL {
				return // somebody holds another term (a TimeoutNow reached it while it was away): leadership may change for that reason
			}
		}
		quorum := (len(others)+1)/2 + 1
		side := map[string]bool{L.ID(): true, r.ids[ai]: true}
		for _, o := range others {
			if len(side) >= quorum {
				break
			}
			side[r.ids[o]] = true
		}
		w.Mu.Lock()
		for _, x := range r.ids {
			for _, y := range r.ids {
				if side[x] != side[y] {
					r.cut[[2]string{x, y}] = true
				}
			}
		}
		r.lastFaultMs = w.Now()
		w.EvLocked(sim.Event{Kind: "outagecut", Srv: L.ID(), S: fmt.Sprint(keys(side))})
		w.Mu.Unlock()
		r.feat("leader-keeps-a-bare-majority-through-a-voter-back-from-a-long-outage")
		watch := 6 * L.Conf.LeaderLeaseTimeout
		lsd := L.LeaseStepDowns.Load()
		for t := time.Duration(0); t < watch; t += time.Millisecond {
			w.Advance(time.Millisecond, r.sample)
			if r.live(li) != L {
				break
			}
			if L.LeaseStepDowns.Load() > lsd {
				w.Mu.Lock()
				w.ViolateLocked("C13", "R2", "C13/R2/leader-with-a-responding-majority-deposed", "%s (term %d) could reach a majority of voters %v at every instant (voter %s back %v after a %d ms outage, then the others cut off) but its lease check deposed it %v after the cut ('failed to contact quorum of nodes, stepping down')",
					L.ID(), termL, keys(side), r.ids[ai], settle, outage, t)
				w.Mu.Unlock()
				break
			}
		}
		r.exec(Action{Op: "heal"})
	case "succcrash":
		// three voters: C lags behind leader A; A is cut off; B is elected with C's
		// vote and crashes before it has caught C up. A and C - a majority - are
		// connected again while B stays down: A (complete log, one term behind C)
		// must be elected within the bound and C must catch up (C12/R1 is judged
		// here, before the quiet phase brings B back)
		li, A := r.leader()
		if A == nil || r.stillCut(A.ID()) || len(r.P.Proto) > 0 {
			return
		}
		cfg := r.cfgOf(A)
		var others []int
		for _, s := range cfg.Servers {
			for i, id := range r.ids {
				if string(s.ID) == id && i != li && s.Suffrage == raft.Voter && r.live(i) != nil {
					others = append(others, i)
				}
			}
		}
		if len(cfg.Servers) != 3 || len(others) != 2 || r.P.NoPreVote[li] || r.P.NoPreVote[others[0]] || r.P.NoPreVote[others[1]] {
			return
		}
		ci, bi := others[a.N%2], others[1-a.N%2]
		termA := A.R.CurrentTerm()
		r.exec(Action{Op: "isolate", Srv: ci})
		r.doApply(A, 2+a.Arg%4, 0)
		w.Advance(30*time.Millisecond, r.sample)
		r.exec(Action{Op: "heal"})
		r.exec(Action{Op: "isolate", Srv: li})
		w.Mu.Lock()
		r.aeBudget, r.aeUsed = map[string]int{r.ids[bi]: 0, r.ids[ci]: 0}, map[string]int{}
		r.lastFaultMs = w.Now()
		w.Mu.Unlock()
		var W *sim.Instance
		for step := 0; step < 400 && W == nil; step++ {
			w.Advance(5*time.Millisecond, r.sample)
			for _, i := range others {
				if in := r.live(i); in != nil && in.R.State() == raft.Leader && in.R.CurrentTerm() > termA {
					W = in
				}
			}
		}
		w.Advance(time.Duration(2+a.Dt%5)*time.Millisecond, r.sample)
		w.Mu.Lock()
		r.aeBudget = nil
		r.lastFaultMs = w.Now()
		w.Mu.Unlock()
		C, B := r.live(ci), r.live(bi)
		if W == nil || W != B || C == nil || r.live(li) != A || C.R.CurrentTerm() != B.R.CurrentTerm() || C.R.LastIndex() >= A.R.LastIndex() || A.R.CurrentTerm() != termA {
			r.exec(Action{Op: "heal"})
			return
		}
		B.Crash()
		r.reapDead()
		r.exec(Action{Op: "heal"})
		r.feat("successor-crashed-before-catching-up-its-voter")
		// "once faults stop": no message loss, no read faults while the claim is judged
		w.Mu.Lock()
		wasLossy := r.lossy
		r.lossy = false
		delete(r.flakyReads, A.ID())
		delete(r.flakyReads, C.ID())
		w.Mu.Unlock()
		defer func() {
			w.Mu.Lock()
			r.lossy = wasLossy
			w.Mu.Unlock()
		}()
		bound := 30 * r.maxHB()
		var L2 *sim.Instance
		for t := time.Duration(0); t < bound && L2 == nil; t += 5 * time.Millisecond {
			w.Advance(5*time.Millisecond, r.sample)
			if r.live(li) != A || r.live(ci) != C {
				break
			}
			_, L2 = r.leader()
		}
		if L2 == nil && r.live(li) == A && r.live(ci) == C {
			w.Mu.Lock()
			w.ViolateLocked("C12", "R1", "C12/R1/no-leader-with-a-connected-majority-while-the-last-leader-is-down", "%s (term %d, last index %d) and %s (term %d, last index %d) are two of three voters and have been connected, fault-free, for %v (30 election timeouts) while %s is down: no leader (states %v / %v)",
				A.ID(), A.R.CurrentTerm(), A.R.LastIndex(), C.ID(), C.R.CurrentTerm(), C.R.LastIndex(), bound, r.ids[bi], A.R.State(), C.R.State())
			w.Mu.Unlock()
		}
		if L2 != nil {
			r.doApply(L2, 1, 0)
			w.Advance(40*time.Millisecond, r.sample)
		}
		r.restart(bi)
	case "removeverify":
		// the leader reaches only one voter A, whose answers are slow; VerifyLeader
		// is called, and while it waits the leader is told to remove A. A's answer
		// arrives after the removal took effect: it is no voter's answer any more
		li, L := r.leader()
		if L == nil || r.stillCut(L.ID()) {
			return
		}
		var others []int
		for _, s := range r.cfgOf(L).Servers {
			for i, id := range r.ids {
				if string(s.ID) == id && i != li && s.Suffrage == raft.Voter && r.live(i) != nil {
					others = append(others, i)
				}
			}
		}
		if len(others) < 2 {
			return
		}
		ai := others[a.N%len(others)]
		fresh := -1
		for i := range r.ids {
			if r.P.Suffrage[i] == 2 && r.neverStarted(i) {
				fresh = i
			}
		}
		if len(a.Set) > 0 && a.Set[0] == 1 && fresh >= 0 {
			// the other way round: the leader reaches no voter at all; while VerifyLeader
			// waits, a fresh server is added and answers at once - it cannot vouch for
			// a call made before it joined
			for _, o := range others {
				r.exec(Action{Op: "isolate", Srv: o})
			}
			w.Advance(time.Duration(a.Arg%3)*time.Millisecond, r.sample)
			r.doVerify(L)
			w.Advance(time.Duration(1+a.Dt%2)*time.Millisecond, r.sample)
			r.start(fresh)
			r.doMembership(L, []string{"addvoter", "addnonvoter"}[a.N%2], fresh, 0)
			r.feat("fresh-server-joins")
			r.feat("server-added-while-verifyleader-waits")
			w.Advance(40*time.Millisecond, r.sample)
			r.exec(Action{Op: "heal"})
			return
		}
		for _, o := range others {
			if o != ai {
				r.exec(Action{Op: "isolate", Srv: o})
			}
		}
		w.Mu.Lock()
		r.slowAckFrom, r.slowAckMs = r.ids[ai], 4+3*(a.Arg%4)
		r.lastFaultMs = w.Now()
		w.Mu.Unlock()
		w.Advance(3*time.Millisecond, r.sample)
		r.doVerify(L)
		w.Advance(time.Duration(1+a.Dt%2)*time.Millisecond, r.sample)
		r.doMembership(L, "remove", ai, 0)
		r.feat("server-removed-while-verifyleader-waits-for-its-answer")
		w.Advance(40*time.Millisecond, r.sample)
		w.Mu.Lock()
		r.slowAckFrom = ""
		r.lastFaultMs = w.Now()
		w.Mu.Unlock()
		r.exec(Action{Op: "heal"})
	case "doublechange":
		// two membership changes are requested back to back on a leader that cannot
		// commit the first one (it is cut off from the other voters; servers that
		// are not voters yet stay reachable): the second must wait or fail
		li, L := r.leader()
		if L == nil || r.stillCut(L.ID()) {
			return
		}
		cfg := r.cfgOf(L)
		suff := map[string]raft.ServerSuffrage{}
		for _, s := range cfg.Servers {
			suff[string(s.ID)] = s.Suffrage
		}
		var picks []int
		for k := 0; k < len(r.ids) && len(picks) < 2; k++ {
			i := (a.N + k) % len(r.ids)
			if i != li {
				picks = append(picks, i)
			}
		}
		if len(picks) < 2 {
			return
		}
		w.Mu.Lock()
		for _, x := range r.ids {
			if x == L.ID() {
				continue
			}
			if sf, in := suff[x]; in && sf == raft.Voter {
				r.cut[[2]string{L.ID(), x}] = true
				r.cut[[2]string{x, L.ID()}] = true
			}
		}
		r.lastFaultMs = w.Now()
		w.EvLocked(sim.Event{Kind: "doublechange-cut", Srv: L.ID()})
		w.Mu.Unlock()
		for n, i := range picks {
			if r.neverStarted(i) {
				r.start(i)
				r.feat("fresh-server-joins")
			}
			kind := "addvoter"
			if sf, in := suff[r.ids[i]]; in && sf == raft.Voter {
				kind = []string{"remove", "demote"}[(a.Arg+n)%2]
			}
			r.doMembership(L, kind, i, 0)
			if n == 0 {
				w.Advance(time.Duration(a.Dt%3)*time.Millisecond, r.sample)
			}
		}
		r.feat("second-membership-change-requested-while-the-first-cannot-commit")
		w.Advance(3*L.Conf.LeaderLeaseTimeout+20*time.Millisecond, r.sample)
		if a.Arg >= 2 {
			if _, L2 := r.leader(); L2 == L {
				r.doTransfer(L, picks[0])
				w.Advance(60*time.Millisecond, r.sample)
			}
		}
		r.exec(Action{Op: "heal"})
	case "suffragecut":
		// a follower loses its vote under this leader (committed), then the
		// leader is cut off together with the non-voters: the demoted server
		// still answers, but its answers are no voter's
		li, L := r.leader()
		if L == nil {
			return
		}
		var voters []int
		for _, s := range r.cfgOf(L).Servers {
			for i, id := range r.ids {
				if string(s.ID) == id && i != li && s.Suffrage == raft.Voter && r.live(i) != nil {
					voters = append(voters, i)
				}
			}
		}
		if len(voters) >= 2 {
			r.doMembership(L, "demote", voters[a.N%len(voters)], 0)
			w.Advance(40*time.Millisecond, r.sample)
			r.feat("follower-demoted-before-the-cut")
		}
		r.execMacro(Action{Op: "cutleader", N: 0, Arg: 1})
	case "demotecut":
		// the leader keeps just the majority it needs, then demotes itself: the
		// new configuration (in force at once, not committable) has one voter
		// fewer on the leader's side than its majority - and the leader itself
		// no longer has a vote to count
		li, L := r.leader()
		if L == nil {
			return
		}
		cfg := r.cfgOf(L)
		var voters, nonvoters []string
		leaderVotes := false
		for _, s := range cfg.Servers {
			switch {
			case string(s.ID) == r.ids[li]:
				leaderVotes = s.Suffrage == raft.Voter
			case s.Suffrage == raft.Voter:
				voters = append(voters, string(s.ID))
			default:
				nonvoters = append(nonvoters, string(s.ID))
			}
		}
		oldQ, newQ := (len(voters)+1)/2+1, len(voters)/2+1
		keep := oldQ - 1
		if !leaderVotes || len(voters) == 0 || keep > newQ-1 {
			r.execMacro(Action{Op: "cutleader", N: a.N, Arg: a.Arg})
			return
		}
		side := map[string]bool{r.ids[li]: true}
		for i := 0; i < keep; i++ {
			side[voters[i]] = true
		}
		if a.Arg == 1 {
			for _, n := range nonvoters {
				side[n] = true
			}
		}
		w.Mu.Lock()
		for _, x := range r.ids {
			for _, y := range r.ids {
				if side[x] != side[y] {
					r.cut[[2]string{x, y}] = true
				}
			}
		}
		r.lastFaultMs = w.Now()
		w.EvLocked(sim.Event{Kind: "demotecut", Srv: L.ID(), S: fmt.Sprint(keys(side))})
		w.Mu.Unlock()
		r.doMembership(L, "demote", li, 0)
		w.Advance(2*time.Millisecond, r.sample)
		demoted := false
		for _, s := range r.cfgOf(L).Servers {
			if string(s.ID) == r.ids[li] && s.Suffrage != raft.Voter {
				demoted = true
			}
		}
		if demoted && L.R.State() == raft.Leader {
			w.Mu.Lock()
			r.leaseCuts = append(r.leaseCuts, &leaseCut{in: L, t0: w.Now(), lease: L.Conf.LeaderLeaseTimeout, term: L.R.CurrentTerm(), epoch: r.healEpoch.Load()})
			w.Mu.Unlock()
			r.feat("cutleader")
			r.feat("cutleader-keeps-a-peer")
			r.feat("leader-demoted-itself-below-its-majority")
			if a.Arg == 1 && len(nonvoters) > 0 {
				r.feat("cutleader-keeps-nonvoters")
			}
		}
	case "isolatemin":
		// isolate a minority of servers from everybody else (they stay
		// connected to each other)
		iso := map[string]bool{}
		for _, i := range a.Set {
			iso[r.ids[i%len(r.ids)]] = true
		}
		if li, _ := r.leader(); a.Arg == 1 && (li < 0 || iso[r.ids[li]]) {
			a.Arg = 0 // muting needs a leader outside the group to hand leadership over
		}
		// is it a minority of the voters? (otherwise it is just a partition)
		minority := false
		for i := range r.ids {
			if in := r.live(i); in != nil && !iso[r.ids[i]] {
				cfg := r.cfgOf(in)
				nv, isoV := 0, 0
				for _, s := range cfg.Servers {
					if s.Suffrage == raft.Voter {
						nv++
						if iso[string(s.ID)] {
							isoV++
						}
					}
				}
				minority = nv > 0 && nv-isoV >= nv/2+1
				break
			}
		}
		w.Mu.Lock()
		for _, x := range r.ids {
			for _, y := range r.ids {
				if a.Arg == 1 {
					// muted: what the isolated servers send is lost, they still hear the others
					if iso[x] && !iso[y] {
						r.cut[[2]string{x, y}] = true
					}
				} else if iso[x] != iso[y] {
					r.cut[[2]string{x, y}] = true
				}
			}
		}
		r.lastFaultMs = w.Now()
		w.EvLocked(sim.Event{Kind: "isolatemin", S: fmt.Sprint(keys(iso))})
		w.Mu.Unlock()
		// a pre-vote server adopts the term of a co-isolated server that runs
		// without pre-vote (its RequestVote carries the bumped term): the claim
		// is only made for groups made of pre-vote servers
		for id := range iso {
			if in := r.liveByID(id); in != nil && in.Conf.PreVoteDisabled {
				minority = false
				r.feat("isolated-group-with-a-non-pre-vote-server")
			}
		}
		// a member may adopt the (already higher) term of a co-isolated member;
		// what must not happen is a term beyond the highest one in the group
		var groupTerm uint64
		for id := range iso {
			if in := r.liveByID(id); in != nil && in.R.CurrentTerm() > groupTerm {
				groupTerm = in.R.CurrentTerm()
			}
		}
		for id := range iso {
			if in := r.liveByID(id); in != nil && minority {
				r.W.Mu.Lock()
				r.isolated[id] = &isoRec{in: in, term: groupTerm, since: w.Now(), muted: a.Arg == 1}
				r.W.Mu.Unlock()
			}
		}
		r.feat("isolate-minority")
		if a.Arg == 1 {
			// the leader hands leadership to a muted server: it receives
			// TimeoutNow, campaigns once without pre-vote and cannot win
			if li, L := r.leader(); L != nil && !iso[r.ids[li]] {
				for i := range r.ids {
					if iso[r.ids[i]] && r.live(i) != nil {
						r.doTransfer(L, i)
						r.feat("isolated-candidate-after-timeoutnow")
						break
					}
				}
			}
		}
	case "rejoin":
		// heal and remember what the majority looked like
		// the majority side's leader
		li, L := -1, (*sim.Instance)(nil)
		for i := range r.ids {
			w.Mu.Lock()
			_, isolated := r.isolated[r.ids[i]]
			w.Mu.Unlock()
			if in := r.live(i); in != nil && !isolated && in.R.State() == raft.Leader && (L == nil || in.R.CurrentTerm() > L.R.CurrentTerm()) {
				li, L = i, in
			}
		}
		w.Mu.Lock()
		r.cut = map[[2]string]bool{}
		rec := &rejoinRec{at: w.Now()}
		exempt := false
		if L != nil {
			rec.leader, rec.term = r.ids[li], L.R.CurrentTerm()
		}
		for id, ir := range r.isolated {
			d := ir.in.DiskLocked()
			// "log not ahead": nothing beyond what the leader holds
			if L != nil && d.Last() > L.DiskLocked().Last() {
				ir.ahead = true
			}
			if L != nil && ir.in.R.CurrentTerm() > rec.term {
				ir.ahead = true
			}
			if !ir.ahead && !ir.in.Conf.PreVoteDisabled {
				rec.servers = append(rec.servers, id)
			} else {
				exempt = true // a rejoining server the property makes no claim about may disrupt
			}
			if w.Now()-ir.since >= 5*int64(r.maxHB()/time.Millisecond) {
				r.feat("isolation>=5-election-timeouts")
			}
		}
		// a latent disruptor: some other server (e.g. one without pre-vote
		// that was isolated earlier) already carries a term above the leader's
		for _, id := range r.ids {
			if in := w.Servers[id].Inst; in != nil && !in.DeadLocked() && in.R != nil && L != nil && in.R.CurrentTerm() > rec.term {
				exempt = true
			}
		}
		r.isolated = map[string]*isoRec{}
		if rec.leader != "" && len(rec.servers) > 0 && !exempt {
			r.rejoins = append(r.rejoins, rec)
		}
		w.EvLocked(sim.Event{Kind: "rejoin", S: fmt.Sprint(rec.servers), Srv: rec.leader, Term: rec.term})
		r.lastFaultMs = w.Now()
		w.Mu.Unlock()
		r.feat("rejoin")
	case "stalesuffix":
		// leader alone appends entries nobody else sees; the rest moves on,
		// snapshots and compacts; then everything is healed.
		li, L := r.leader()
		if L == nil {
			return
		}
		r.exec(Action{Op: "isolate", Srv: li})
		r.doApply(L, max(1, a.N), 0)
		w.Advance(time.Duration(4*r.P.HBms[li])*time.Millisecond+r.maxHB()*3, r.sample)
		if _, L2 := r.leader(); L2 != nil && L2 != L {
			r.doApply(L2, max(1, a.Arg), 0)
			w.Advance(30*time.Millisecond, r.sample)
			if len(a.Set) > 1 && a.Set[1] > 0 && !r.stillCut(L2.ID()) {
				// the new leader is given a user Restore instead of snapshotting:
				// the old leader comes back with a tail that may reach past it
				r.doUserRestore(L2, 3, a.Set[1]-1)
				r.feat("stale-suffix-meets-user-restore")
			} else {
				r.doSnapshot(L2)
			}
			w.Advance(30*time.Millisecond, r.sample)
			r.feat("stale-suffix-built")
		}
		if len(a.Set) > 0 && a.Set[0] > 0 {
			// the old leader's log store fails some reads while it is brought back:
			// it rejects requests it could have accepted, the leader walks further back
			r.exec(Action{Op: "flakyreads", Srv: li, N: 30, Arg: a.Set[0]})
		}
		r.exec(Action{Op: "heal"})
	case "lagcompact":
		// one follower is cut while the others write, snapshot and compact
		fi := r.resolve(-2)
		r.exec(Action{Op: "isolate", Srv: fi})
		if _, L := r.leader(); L != nil {
			r.doApply(L, max(2, a.N), 0)
			w.Advance(40*time.Millisecond, r.sample)
			r.doSnapshot(L)
			w.Advance(40*time.Millisecond, r.sample)
			r.feat("lagging-follower-behind-compaction")
		}
		if a.Arg == 1 {
			if in := r.live(fi); in != nil {
				in.Crash()
			}
		}
		if len(a.Set) > 0 && a.Set[0] > 0 {
			// VerifyLeader while the lagging follower is being sent the snapshot:
			// armed here, issued a.Set[0]-1 ms after the InstallSnapshot goes out
			w.Mu.Lock()
			r.verifyOnIS = a.Set[0]
			w.Mu.Unlock()
		}
		r.exec(Action{Op: "heal"})
	case "staleis":
		// a lagging follower is being sent a snapshot; the request lingers in the
		// network while its sender is deposed and the follower moves on to a new
		// leader of a higher term; then the old request arrives
		hold := int(3*r.maxHB()/time.Millisecond) + 50
		if hold >= 10*r.P.RPCms-20 {
			r.execMacro(Action{Op: "lagcompact", N: a.N})
			return
		}
		fi := r.resolve(-2)
		r.exec(Action{Op: "isolate", Srv: fi})
		if _, L := r.leader(); L != nil {
			r.doApply(L, max(2, a.N), 0)
			w.Advance(40*time.Millisecond, r.sample)
			r.doSnapshot(L)
			w.Advance(40*time.Millisecond, r.sample)
		}
		w.Mu.Lock()
		r.holdISms, r.heldISFrom, r.heldISUntil = hold, "", 0
		w.Mu.Unlock()
		r.exec(Action{Op: "heal"})
		for k := 0; k < 200; k++ {
			w.Mu.Lock()
			seen := r.heldISFrom
			w.Mu.Unlock()
			if seen != "" {
				break
			}
			w.Advance(time.Millisecond, r.sample)
		}
		w.Mu.Lock()
		from, until := r.heldISFrom, r.heldISUntil
		r.holdISms = 0
		w.Mu.Unlock()
		if from == "" {
			return
		}
		for i, id := range r.ids {
			if id == from {
				r.exec(Action{Op: "isolate", Srv: i}) // the sender loses its majority and is replaced
			}
		}
		if d := until - 3 - w.Now(); d > 0 {
			w.Advance(time.Duration(d)*time.Millisecond, r.sample)
		}
		r.exec(Action{Op: "heal"}) // the old request can be delivered now
		w.Advance(20*time.Millisecond, r.sample)
		r.feat("stale-installsnapshot-from-a-deposed-leader")
	case "latesnapshot":
		// a lagging follower is caught up by InstallSnapshot; a copy of that request
		// lingers in the network. The follower moves on, takes a newer snapshot of
		// its own, stops and starts again - and before it hears anything else from
		// the leader the old copy arrives
		fi := r.resolve(-2)
		F := r.live(fi)
		_, L := r.leader()
		if F == nil || L == nil || F == L {
			return
		}
		r.exec(Action{Op: "isolate", Srv: fi})
		r.doApply(L, max(2, a.N), 0)
		w.Advance(40*time.Millisecond, r.sample)
		r.doSnapshot(L)
		w.Advance(40*time.Millisecond, r.sample)
		linger := 200 + 50*a.Arg
		w.Mu.Lock()
		r.lateCopyISms, r.lateCopyFrom, r.lateCopyDue = linger, "", 0
		w.Mu.Unlock()
		r.exec(Action{Op: "heal"})
		for k := 0; k < 150; k++ {
			w.Mu.Lock()
			seen := r.lateCopyFrom
			w.Mu.Unlock()
			if seen != "" {
				break
			}
			w.Advance(time.Millisecond, r.sample)
		}
		w.Mu.Lock()
		from, due := r.lateCopyFrom, r.lateCopyDue
		r.lateCopyISms = 0
		w.Mu.Unlock()
		if from == "" || r.live(fi) != F {
			return
		}
		w.Advance(20*time.Millisecond, r.sample)
		if _, L2 := r.leader(); L2 != nil {
			r.doApply(L2, 3+a.N%4, 0)
		}
		w.Advance(40*time.Millisecond, r.sample)
		r.doSnapshot(F)
		w.Advance(40*time.Millisecond, r.sample)
		if d := due - 2 - int64(a.Dt%3) - w.Now(); d > 0 {
			w.Advance(time.Duration(d)*time.Millisecond, r.sample)
		}
		if r.live(fi) != F {
			return
		}
		r.exec(Action{Op: "isolate", Srv: fi})
		F.Crash()
		r.reapDead()
		r.restart(fi)
		if d := due + 3 - w.Now(); d > 0 {
			w.Advance(time.Duration(d)*time.Millisecond, r.sample)
		}
		r.feat("old-installsnapshot-copy-reaches-a-restarted-follower")
		r.exec(Action{Op: "heal"})
		w.Advance(60*time.Millisecond, r.sample)
	case "snapfallback":
		// a server takes two snapshots a few entries apart (the log between them
		// survives compaction), stops, and cannot read the newer one when it starts
		// again: NewRaft falls back to the older snapshot and the log
		i := r.resolve(a.Srv)
		in := r.live(i)
		_, L := r.leader()
		if in == nil || L == nil || r.P.Trailing == 0 {
			return
		}
		gap := int(min(r.P.Trailing, uint64(1+a.N)))
		r.doApply(L, 2, 0)
		w.Advance(30*time.Millisecond, r.sample)
		r.doSnapshot(in)
		w.Advance(20*time.Millisecond, r.sample)
		r.doApply(L, gap, 0)
		w.Advance(30*time.Millisecond, r.sample)
		r.doSnapshot(in)
		w.Advance(20*time.Millisecond, r.sample)
		if a.Arg == 1 {
			r.doApply(L, 2, 0)
			w.Advance(20*time.Millisecond, r.sample)
		}
		in.Crash()
		r.reapDead()
		r.spoilNewestSnapshot(i)
		r.restart(i)
		w.Advance(30*time.Millisecond, r.sample)
		if _, L2 := r.leader(); L2 != nil {
			r.doApply(L2, 2, 0)
		}
		w.Advance(50*time.Millisecond, r.sample)
	case "busydisk":
		// the leader's disk is slow for a moment: its main thread sits in StoreLogs
		// while its followers acknowledge what it wrote before; a membership
		// change and commands are in flight when the leader is shut down, handed
		// over or cut off - every call must still be answered
		li, L := r.leader()
		if L == nil || len(a.Set) < 3 {
			return
		}
		r.busyDisk[li].Store(w.Now() + 60)
		if a.Set[0]%2 == 0 {
			for i := range r.ids {
				if i != li && r.live(i) != nil {
					r.doMembership(L, []string{"addnonvoter", "demote", "addvoter"}[a.Set[0]/2%3], i, 0)
					break
				}
			}
			w.Advance(time.Millisecond, r.sample)
		}
		r.doApply(L, 1+a.N, 0)
		w.Advance(time.Duration(1+a.Set[1])*time.Millisecond, r.sample)
		r.doApply(L, 2, 0)
		if len(a.Set) > 3 && a.Set[3] == 1 {
			// a user snapshot is under way as well: its goroutine has the state
			// machine's answer and waits for the (busy) main thread's configuration
			r.doSnapshot(L)
			r.feat("snapshot-waits-for-a-busy-main-thread")
		}
		w.Advance(time.Duration(1+a.Set[1]/2)*time.Millisecond, r.sample)
		switch a.Set[2] % 3 {
		case 0:
			r.doShutdown(L)
		case 1:
			r.doTransfer(L, -1)
		default:
			r.exec(Action{Op: "isolate", Srv: li})
		}
		r.feat("leader-with-a-slow-disk-leaves-with-calls-in-flight")
		w.Advance(100*time.Millisecond, r.sample)
		if a.Set[2]%3 == 2 {
			r.exec(Action{Op: "heal"})
		}
	case "restoreinflight":
		// a user Restore arrives while several Apply calls are dispatched and not
		// yet committed (the followers' answers are a moment late); the leader
		// stays leader: every one of those calls must be answered
		li, L := r.leader()
		if L == nil {
			return
		}
		acksLost := len(a.Set) > 1 && a.Set[1] == 1
		if acksLost {
			// the followers do store what the leader sends, only their
			// acknowledgements are lost: nothing commits, yet the entries that the
			// Restore cancels sit in the followers' logs too
			w.Mu.Lock()
			r.dropAppendAcks = true
			r.lastFaultMs = w.Now()
			w.Mu.Unlock()
			r.feat("restore-cancels-entries-the-followers-hold")
		} else {
			r.exec(Action{Op: "isolate", Srv: li})
		}
		if len(a.Set) > 0 && a.Set[0] > 0 {
			// ... and a membership change that cannot commit: the Restore is refused
			// and must leave the calls in flight alone
			for i := range r.ids {
				if i != li && r.live(i) != nil {
					r.doMembership(L, []string{"addnonvoter", "demote", "remove"}[a.Set[0]%3], i, 0)
					break
				}
			}
			r.feat("restore-with-a-membership-change-in-flight")
		}
		r.doApply(L, 2+a.N, 0)
		w.Advance(time.Millisecond, r.sample)
		if acksLost {
			w.Advance(2*time.Millisecond, r.sample)
		}
		r.doUserRestore(L, 3, a.Arg)
		w.Advance(time.Millisecond, r.sample)
		if acksLost {
			w.Mu.Lock()
			r.dropAppendAcks = false
			r.lastFaultMs = w.Now()
			w.Mu.Unlock()
			w.Advance(5*time.Millisecond, r.sample)
			r.doApply(L, 2, 0)
		} else {
			r.exec(Action{Op: "heal"})
		}
		w.Advance(60*time.Millisecond, r.sample)
		r.feat("restore-with-calls-in-flight")
	case "slowtransfer":
		// a leadership transfer to a follower that is cut off and behind stays in
		// progress for a whole election time-out; client calls made meanwhile are
		// refused (and a refused call has no effect); the leader keeps leadership
		li, L := r.leader()
		if L == nil {
			return
		}
		fi := -1
		for i := range r.ids {
			if i != li && r.live(i) != nil {
				fi = i
				break
			}
		}
		if fi < 0 {
			return
		}
		w.Mu.Lock()
		r.cut[[2]string{r.ids[li], r.ids[fi]}] = true
		r.cut[[2]string{r.ids[fi], r.ids[li]}] = true
		r.lastFaultMs = w.Now()
		w.Mu.Unlock()
		r.doApply(L, 2, 0)
		w.Advance(10*time.Millisecond, r.sample)
		r.doTransfer(L, fi)
		w.Advance(time.Duration(2+a.N)*time.Millisecond, r.sample)
		switch a.Arg % 4 {
		case 0:
			r.doUserRestore(L, 3, 1)
		case 1:
			r.doApply(L, 2, 0)
		case 2:
			r.doBarrier(L)
		default:
			r.doMembership(L, "demote", fi, 0)
		}
		r.feat("client-call-during-a-slow-leadership-transfer")
		w.Advance(L.Conf.ElectionTimeout+20*time.Millisecond, r.sample)
		w.Mu.Lock()
		r.healEpoch.Add(1)
		delete(r.cut, [2]string{r.ids[li], r.ids[fi]})
		delete(r.cut, [2]string{r.ids[fi], r.ids[li]})
		r.lastFaultMs = w.Now()
		w.Mu.Unlock()
	case "inflightfault":
		// the leader has calls in flight (its followers do not answer), then its
		// own log store fails the next append
		li, L := r.leader()
		if L == nil {
			return
		}
		r.exec(Action{Op: "isolate", Srv: li})
		r.doApply(L, max(1, a.N), 0)
		if a.Arg%2 == 1 {
			for m := range r.ids {
				if m != li && !r.neverStarted(m) {
					r.doMembership(L, []string{"demote", "remove", "addvoter"}[a.Arg/2%3], m, 0)
					break
				}
			}
		}
		w.Advance(2*time.Millisecond, r.sample)
		w.Mu.Lock()
		r.faults = append(r.faults, &faultSpec{srv: r.ids[li], site: "dispatchLogs", nth: 1, dec: sim.DoError})
		w.Mu.Unlock()
		r.feat("fault-armed")
		r.doApply(L, 1, 0)
		w.Advance(5*time.Millisecond, r.sample)
		r.feat("leader-store-fails-with-calls-in-flight")
		r.exec(Action{Op: "heal"})
	case "snapcfg":
		// a snapshot is requested while the state machine is busy with a burst
		// of commands and a membership change commits behind them
		li, L := r.leader()
		if L == nil {
			return
		}
		lead := 0
		if len(a.Set) > 1 && a.Set[1] > 0 {
			// the state machine is already working on the burst when the snapshot
			// is requested, so the request waits behind it
			lead = a.Set[1]
			r.busyFSM[li].Store(w.Now() + 40)
		}
		r.doApply(L, max(2, a.N), 0)
		if lead > 0 {
			w.Advance(time.Duration(lead)*time.Millisecond, r.sample)
			r.feat("snapshot-requested-of-a-busy-state-machine")
		}
		r.doSnapshot(L)
		kind := []string{"addnonvoter", "demote", "addvoter", "remove"}[a.Arg%4]
		member := 0
		if len(a.Set) > 0 {
			member = a.Set[0] % len(r.ids)
		}
		if member == li {
			member = (member + 1) % len(r.ids)
		}
		if !r.neverStarted(member) {
			r.doMembership(L, kind, member, 0)
		}
		r.feat("snapshot-racing-a-membership-change")
		if lead > 0 {
			w.Advance(2*time.Millisecond, r.sample)
			r.doApply(L, 2, 0)
			w.Advance(30*time.Millisecond, r.sample)
		}
		w.Advance(30*time.Millisecond, r.sample)
	case "inheritedtail":
		// commands reach the followers but their acknowledgements are lost, so
		// nothing commits; every server is cut off until the leader's lease runs
		// out; after the heal whoever wins holds an uncommitted tail of an older
		// term, accepts new commands on top of it, and then commits all at once
		_, L := r.leader()
		if L == nil {
			return
		}
		w.Mu.Lock()
		r.dropAppendAcks = true
		r.lastFaultMs = w.Now()
		w.Mu.Unlock()
		r.doApply(L, max(1, a.N), 0)
		w.Advance(15*time.Millisecond, r.sample)
		for i := range r.ids {
			r.exec(Action{Op: "isolate", Srv: i})
		}
		w.Advance(r.maxHB()*2+20*time.Millisecond, r.sample)
		r.exec(Action{Op: "heal"})
		for k := 0; k < 40; k++ {
			if _, W := r.leader(); W != nil {
				r.doApply(W, max(1, a.Arg), 0)
				r.feat("new-leader-with-inherited-uncommitted-tail")
				break
			}
			w.Advance(r.maxHB()/2, r.sample)
		}
		w.Advance(10*time.Millisecond, r.sample)
		w.Mu.Lock()
		r.dropAppendAcks = false
		r.lastFaultMs = w.Now()
		w.Mu.Unlock()
		w.Advance(50*time.Millisecond, r.sample)
	case "figure8":
		// Raft paper, Figure 8. Leader A appends entries of its term alone; another
		// server W is elected and appends entries nobody else stores; W is cut off,
		// A is elected again and its first batch - entries of its OLD term only -
		// reaches a majority while the no-op of its new term does not. Nothing may
		// be reported committed at that point: W (newer last term) can still win
		// and overwrite those entries, which is what happens next in two of the
		// three variants.
		li, A := r.leader()
		if A == nil || r.stillCut(A.ID()) {
			return
		}
		liveVoters := 0
		for _, s := range r.cfgOf(A).Servers {
			if s.Suffrage == raft.Voter && r.liveByID(string(s.ID)) != nil {
				liveVoters++
			}
		}
		if liveVoters < 3 {
			return
		}
		k := r.P.MaxAppend
		if k > 8 {
			k = 1 + a.N%3 // the batch boundary cannot separate old from new entries; still a history worth running
		}
		idA := A.ID()
		termA := A.R.CurrentTerm()
		r.exec(Action{Op: "isolate", Srv: li})
		r.doApply(A, k, 0)
		w.Advance(2*time.Millisecond, r.sample)
		w.Mu.Lock()
		r.aeBudget, r.aeUsed = map[string]int{}, map[string]int{}
		for _, id := range r.ids {
			if id != idA {
				r.aeBudget[id] = 0
			}
		}
		r.lastFaultMs = w.Now()
		w.Mu.Unlock()
		cleanup := func() {
			w.Mu.Lock()
			r.aeBudget = nil
			r.lastFaultMs = w.Now()
			w.Mu.Unlock()
			r.exec(Action{Op: "heal"})
		}
		var W *sim.Instance
		wi := -1
		for step := 0; step < 400 && W == nil; step++ {
			w.Advance(5*time.Millisecond, r.sample)
			for i := range r.ids {
				if in := r.live(i); i != li && in != nil && in.R.State() == raft.Leader && in.R.CurrentTerm() > termA {
					W, wi = in, i
				}
			}
		}
		if W == nil || r.live(li) != A {
			cleanup()
			return
		}
		if a.Arg%2 == 1 {
			r.doApply(W, 1, 0)
		}
		w.Advance(2*time.Millisecond, r.sample)
		termW := W.R.CurrentTerm()
		idW := W.ID()
		r.exec(Action{Op: "isolate", Srv: wi})
		w.Mu.Lock()
		for _, y := range r.ids {
			if y != idW && y != idA {
				r.healEpoch.Add(1)
				delete(r.cut, [2]string{idA, y})
				delete(r.cut, [2]string{y, idA})
			}
		}
		extra := 0
		if len(a.Set) > 0 {
			extra = a.Set[0]
		}
		r.aeBudget, r.aeUsed = map[string]int{idA: 1 + extra}, map[string]int{} // per follower the first request is the batch of old entries
		r.lastFaultMs = w.Now()
		w.Mu.Unlock()
		hbA := A.Conf.HeartbeatTimeout
		if liveVoters > 3 {
			// A must time out first: the others could elect one of themselves
			rc := A.R.ReloadableConfig()
			rc.HeartbeatTimeout, rc.ElectionTimeout = max(hbA/4, A.Conf.LeaderLeaseTimeout), max(hbA/4, A.Conf.LeaderLeaseTimeout)
			_ = A.R.ReloadConfig(rc)
		}
		again := false
		for step := 0; step < 600 && !again; step++ {
			w.Advance(2*time.Millisecond, r.sample)
			if r.live(li) != A {
				break
			}
			again = A.R.State() == raft.Leader && A.R.CurrentTerm() > termW
			if _, other := r.leader(); other != nil && other != A && other.R.CurrentTerm() > termW {
				break
			}
		}
		if liveVoters > 3 && r.live(li) == A {
			rc := A.R.ReloadableConfig()
			rc.HeartbeatTimeout, rc.ElectionTimeout = hbA, hbA
			_ = A.R.ReloadConfig(rc)
		}
		if !again {
			cleanup()
			return
		}
		w.Advance(time.Duration(4+r.P.LatencyMs*2)*time.Millisecond, r.sample)
		r.feat("figure8-leader-again-with-old-term-tail")
		lastA := A.R.LastIndex()
		for i := range r.ids {
			if in := r.live(i); in != nil && i != li && i != wi && in.R.LastIndex()+1 == lastA && k == r.P.MaxAppend {
				r.feat("figure8-old-term-entries-on-a-majority-without-the-new-terms-no-op")
				break
			}
		}
		w.Advance(time.Duration(a.Dt%7)*time.Millisecond, r.sample)
		switch a.N % 3 {
		case 0:
			A.Crash()
			r.reapDead()
		case 1:
			r.exec(Action{Op: "isolate", Srv: li})
		case 2:
			// the paper's other ending: the no-op gets through, W cannot win any more
			w.Mu.Lock()
			r.aeBudget = nil
			w.Mu.Unlock()
			w.Advance(10*time.Millisecond, r.sample)
			r.exec(Action{Op: "isolate", Srv: li})
		}
		w.Mu.Lock()
		r.aeBudget = nil
		for _, y := range r.ids {
			if y != idW && y != idA {
				r.healEpoch.Add(1)
				delete(r.cut, [2]string{idW, y})
				delete(r.cut, [2]string{y, idW})
			}
		}
		r.lastFaultMs = w.Now()
		w.Mu.Unlock()
		w.Advance(6*r.maxHB(), r.sample)
		if _, L3 := r.leader(); L3 != nil && L3 != A {
			r.doApply(L3, 2, 0)
			if L3 == W {
				r.feat("figure8-overwriting-leader-elected")
			}
		}
		w.Advance(30*time.Millisecond, r.sample)
		if a.N%3 == 0 {
			r.restart(li)
		}
		r.exec(Action{Op: "heal"})
	case "cfgrestart":
		// a membership change, a few settled writes, every server restarts; the
		// new leader snapshots; everything restarts again (what survives is the
		// configuration the snapshots and logs durably carry)
		li, L := r.leader()
		if L == nil {
			return
		}
		kind := []string{"addnonvoter", "demote", "addvoter", "remove"}[a.Arg%4]
		member := 0
		if len(a.Set) > 0 {
			member = a.Set[0] % len(r.ids)
		}
		if member == li && (kind == "remove" || kind == "demote") {
			member = (member + 1) % len(r.ids)
		}
		r.doMembership(L, kind, member, 0)
		w.Advance(40*time.Millisecond, r.sample)
		for k := 0; k < a.N; k++ {
			r.doApply(L, 1, 0)
			w.Advance(25*time.Millisecond, r.sample)
		}
		r.exec(Action{Op: "restartall"})
		w.Advance(r.maxHB()*4+100*time.Millisecond, r.sample)
		if _, L2 := r.leader(); L2 != nil {
			r.doSnapshot(L2)
			w.Advance(40*time.Millisecond, r.sample)
			r.feat("snapshot-by-leader-restarted-after-membership-change")
		}
		r.exec(Action{Op: "restartall"})
	case "aftershutdown":
		// every API call on a server whose Shutdown completed
		in := r.live(r.resolve(a.Srv))
		if in == nil {
			return
		}
		done := make(chan struct{})
		go func() { _ = in.R.Shutdown().Error(); close(done) }()
		w.Advance(time.Duration(10*r.P.RPCms+1000)*time.Millisecond, nil)
		select {
		case <-done:
		default:
			return
		}
		r.afterShutdownCalls(in)
		r.feat("calls-after-shutdown")
	}
}

func (r *Runner) liveByID(id string) *sim.Instance {
	for i, x := range r.ids {
		if x == id {
			return r.live(i)
		}
	}
	return nil
}

func (r *Runner) cfgOf(in *sim.Instance) raft.Configuration {
	r.W.Mu.Lock()
	defer r.W.Mu.Unlock()
	c, _ := sim.LatestCfgInDisk(in.DiskLocked(), false)
	return c
}

// afterShutdownCalls issues the whole client API on a shut-down server; every
// call must resolve, the queue-based ones with ErrRaftShutdown (C17/R2).
func (r *Runner) afterShutdownCalls(in *sim.Instance) {
	type call struct {
		name string
		f    func() error
	}
	srv := r.W.Servers[r.ids[0]]
	calls := []call{
		{"Apply", func() error { return in.R.Apply(sim.EncodePayload(r.W.NewPayload(), 0), 0).Error() }},
		{"Barrier", func() error { return in.R.Barrier(0).Error() }},
		{"VerifyLeader", func() error { return in.R.VerifyLeader().Error() }},
		{"AddVoter", func() error { return in.R.AddVoter(srv.ID, srv.Addr, 0, 0).Error() }},
		{"RemoveServer", func() error { return in.R.RemoveServer(srv.ID, 0, 0).Error() }},
		{"Snapshot", func() error { return in.R.Snapshot().Error() }},
		{"LeadershipTransfer", func() error { return in.R.LeadershipTransfer().Error() }},
		{"BootstrapCluster", func() error { return in.R.BootstrapCluster(raft.Configuration{}).Error() }},
		{"GetConfiguration", func() error { return in.R.GetConfiguration().Error() }},
	}
	for _, c := range calls {
		c := c
		op := r.newOp("after-shutdown:"+c.name, in, 0, "")
		go func() { r.finish(op, c.f(), 0, nil) }()
	}
}

// ---------------------------------------------------------------------------
// per-millisecond sampling

func (r *Runner) sampleProfile() {
	w := r.W
	now := w.Now()
	// C13/R1: isolated leaders step down within the lease bound
	for _, lc := range r.leaseCuts {
		if lc.in.Dead() || lc.cancelled {
			continue
		}
		if lc.epoch != r.healEpoch.Load() {
			lc.cancelled = true // links were restored since: the server is not "cut off since t0" any more
			continue
		}
		if lc.steppedAt == 0 && !r.stillCut(lc.in.ID()) {
			lc.cancelled = true // healed before the bound: nothing to claim
			continue
		}
		if lc.voters == nil {
			lc.voters = map[string]bool{}
			for _, s := range r.cfgOf(lc.in).Servers {
				if s.Suffrage == raft.Voter {
					lc.voters[string(s.ID)] = true
				}
			}
		}
		st := lc.in.R.State()
		bound := lc.t0 + int64(2*lc.lease/time.Millisecond) + 10 + 2
		if lc.steppedAt == 0 {
			if st != raft.Leader {
				lc.steppedAt = now
				r.feat("lease-stepdown")
			} else if now > bound {
				sig := "C13/R1/isolated-leader-keeps-leadership-beyond-twice-the-lease"
				// a voter added by the cut-off leader itself counts as "contacted"
				// for one lease from the moment it is added (replication state is
				// created with lastContact = now): told apart, it is a known finding
				for _, s := range r.cfgOf(lc.in).Servers {
					if s.Suffrage == raft.Voter && lc.voters != nil && !lc.voters[string(s.ID)] {
						sig = "C13/R1/cut-off-leader-that-adds-a-voter-counts-it-as-contacted-for-one-more-lease"
					}
				}
				w.Violate("C13", "R1", sig,
					"%s lost its voter majority at %d ms (lease %v) and is still Leader at %d ms (bound %d ms)", lc.in.ID(), lc.t0, lc.lease, now, bound)
				lc.steppedAt = now
			}
		} else if st == raft.Leader && r.stillCut(lc.in.ID()) && lc.in.R.CurrentTerm() == lc.term {
			w.Violate("C13", "R1", "C13/R1/leader-again-without-majority", "%s stepped down at %d ms and is Leader of the same term %d again at %d ms while still cut off", lc.in.ID(), lc.steppedAt, lc.term, now)
		}
		if !lc.probed && lc.steppedAt != 0 && now >= bound+3 && st != raft.Shutdown {
			lc.probed = true
			payload := w.NewPayload()
			op := r.newOp("apply", lc.in, payload, "lease-probe")
			in := lc.in
			go func() {
				f := in.R.Apply(sim.EncodePayload(payload, 0), 0)
				err := f.Error()
				var idx uint64
				var resp any
				if err == nil {
					idx, resp = f.Index(), f.Response()
				}
				r.finish(op, err, idx, resp)
				if err == nil && r.stillCut(in.ID()) && lc.epoch == r.healEpoch.Load() {
					w.Violate("C13", "R1", "C13/R1/write-accepted-after-lease-expiry", "%s accepted a write (index %d) after it had lost its majority and its lease had expired", in.ID(), idx)
				}
			}()
		}
	}
	// C14/R1: an isolated pre-vote server never raises its term
	w.Mu.Lock()
	isos := make([]*isoRec, 0, len(r.isolated))
	for _, ir := range r.isolated {
		isos = append(isos, ir)
	}
	w.Mu.Unlock()
	for _, ir := range isos {
		if ir.in.Dead() || ir.in.Conf.PreVoteDisabled {
			continue
		}
		base := ir.term
		if ir.muted {
			// it hears the others: adopting the term of an election held among them is legitimate
			for _, id := range r.ids {
				if o := r.liveByID(id); o != nil && o != ir.in {
					w.Mu.Lock()
					_, alsoIso := r.isolated[id]
					w.Mu.Unlock()
					if ot := o.R.CurrentTerm(); !alsoIso && ot > base {
						base = ot
					}
				}
			}
		}
		// a TimeoutNow makes its receiver campaign once without pre-vote; the
		// co-isolated servers adopt that term from its vote requests
		tns := 0
		for _, o := range isos {
			tns += w.O.TimeoutNowsTo(o.in.ID(), o.since)
		}
		if t := ir.in.R.CurrentTerm(); t > base+uint64(tns) {
			w.Violate("C14", "R1", "C14/R1/isolated-server-raised-its-term", "%s (pre-vote enabled) isolated since %d ms with term %d has term %d at %d ms", ir.in.ID(), ir.since, ir.term, t, now)
			ir.term = t
		}
	}
	// C14/R2: after the rejoin the majority's leader and term are unchanged
	for _, rj := range r.rejoins {
		window := int64(10 * r.maxHB() / time.Millisecond)
		if rj.checked || now < rj.at+window {
			continue
		}
		rj.checked = true
		L := r.liveByID(rj.leader)
		if L == nil {
			continue
		}
		if L.R.State() != raft.Leader || L.R.CurrentTerm() != rj.term {
			if r.faultSince(rj.at) {
				continue // something else happened in the window
			}
			w.Violate("C14", "R2", "C14/R2/rejoining-server-disrupted-the-leader", "servers %v rejoined at %d ms with logs not ahead; leader %s of term %d is now %v in term %d (%s)", rj.servers, rj.at, rj.leader, rj.term, L.R.State(), L.R.CurrentTerm(), r.describe())
			continue
		}
		for _, id := range rj.servers {
			in := r.liveByID(id)
			if in == nil {
				continue
			}
			_, lid := in.R.LeaderWithID()
			if in.R.State() != raft.Follower || string(lid) != rj.leader || in.R.CurrentTerm() != rj.term {
				if r.faultSince(rj.at) {
					continue
				}
				w.Violate("C14", "R2", "C14/R2/rejoined-server-is-not-a-follower-of-the-leader", "%s rejoined at %d ms; %d ms later it is %v in term %d following %q (leader %s, term %d)", id, rj.at, now-rj.at, in.R.State(), in.R.CurrentTerm(), lid, rj.leader, rj.term)
			} else {
				r.feat("rejoined-as-follower")
			}
		}
	}
	// C18/R3: a follower advertises only a real leader of its current term
	if r.P.Profile == "notify" || now%7 == 0 {
		for i := range r.ids {
			in := r.live(i)
			if in == nil || in.R.State() != raft.Follower {
				continue
			}
			_, lid := in.R.LeaderWithID()
			term := in.R.CurrentTerm()
			if lid == "" {
				continue
			}
			w.Mu.Lock()
			if real := w.O.LeaderOf(term); real != string(lid) {
				w.ViolateLocked("C18", "R3", "C18/R3/follower-advertises-a-server-that-was-not-leader-of-its-term", "%s (term %d) names %s as leader; leader of term %d was %q", in.ID(), term, lid, term, real)
			}
			w.Mu.Unlock()
		}
	}
	// C17/R1: futures resolve within the bound while the server runs
	if now%50 == 0 {
		bf := int64(r.futureBound() / time.Millisecond)
		w.Mu.Lock()
		for _, op := range r.Ops {
			if op.Done || op.flagged || op.inst.DeadLocked() || now-op.InvokeMs < bf {
				continue
			}
			op.flagged = true
			st := op.inst.R.State()
			rule, sig := "R1", fmt.Sprintf("C17/R1/%s-future-unresolved-on-running-server", opKind(op.Kind))
			if st == raft.Shutdown {
				rule, sig = "R3", fmt.Sprintf("C17/R3/%s-future-stranded-by-shutdown", opKind(op.Kind))
			}
			w.ViolateLocked("C17", rule, sig, "%s #%d on %s invoked at %d ms is unresolved %d ms later (server state %v, bound %d ms)", op.Kind, op.ID, op.Srv, op.InvokeMs, now-op.InvokeMs, st, bf)
		}
		w.Mu.Unlock()
	}
}

func opKind(k string) string {
	for i := 0; i < len(k); i++ {
		if k[i] == ':' {
			return k[i+1:] + "-after-shutdown"
		}
	}
	return k
}

// stillCut reports whether server id currently cannot exchange messages with
// a majority of the voters of its latest configuration.
func (r *Runner) stillCut(id string) bool {
	r.W.Mu.Lock()
	defer r.W.Mu.Unlock()
	srv := r.W.Servers[id]
	if srv == nil || srv.Inst == nil {
		return false
	}
	cfg, _ := sim.LatestCfgInDisk(srv.Inst.DiskLocked(), false)
	voters, reach := 0, 0
	for _, s := range cfg.Servers {
		if s.Suffrage != raft.Voter {
			continue
		}
		voters++
		v := string(s.ID)
		if v == id {
			reach++
			continue
		}
		if r.cut[[2]string{id, v}] || r.cut[[2]string{v, id}] {
			continue
		}
		if o := r.W.Servers[v]; o == nil || o.Inst == nil || o.Inst.DeadLocked() {
			continue
		}
		reach++
	}
	return reach < voters/2+1
}

func (r *Runner) faultSince(t int64) bool {
	r.W.Mu.Lock()
	defer r.W.Mu.Unlock()
	return r.lastFaultMs > t
}

// ---------------------------------------------------------------------------
// end-of-run profile rules (caller holds W.Mu)

func (r *Runner) finalProfile() {
	w := r.W
	// C18/R1, R2: notifications alternate, match transitions, and the last one
	// tells the truth at rest
	for in, rec := range r.notif {
		if in.NotifyCh == nil || in.R == nil {
			continue
		}
		for i, v := range rec.vals {
			want := i%2 == 0
			if v != want {
				w.ViolateLocked("C18", "R1", "C18/R1/notifications-do-not-alternate", "%s/%d NotifyCh delivered %v (sequence must alternate starting with true)", in.ID(), in.Gen, rec.vals)
				break
			}
		}
		gains, losses := 0, 0
		was := false
		for _, s := range in.States {
			is := s.State == raft.Leader
			if is && !was {
				gains++
			}
			if !is && was {
				losses++
			}
			was = is
		}
		got := len(rec.vals)
		if in.DeadLocked() {
			continue
		}
		if got > gains+losses || got < gains+losses-1 {
			w.ViolateLocked("C18", "R1", "C18/R1/notification-count-differs-from-transitions", "%s/%d: %d leadership gains and %d losses observed, NotifyCh delivered %d values %v", in.ID(), in.Gen, gains, losses, got, rec.vals)
		}
		if gains+losses >= 3 {
			r.feat("notify:>=3-transitions")
		}
		if in.R.State() != raft.Shutdown && r.atRest && got > 0 {
			isLeader := in.R.State() == raft.Leader
			if rec.vals[got-1] != isLeader && got == gains+losses {
				w.ViolateLocked("C18", "R2", "C18/R2/last-notification-disagrees-with-state-at-rest", "%s/%d at rest is %v but the last NotifyCh value is %v (%v)", in.ID(), in.Gen, in.R.State(), rec.vals[got-1], rec.vals)
			}
			select {
			case v := <-in.R.LeaderCh():
				if v != isLeader {
					w.ViolateLocked("C18", "R2", "C18/R2/leaderch-does-not-hold-the-latest-transition", "%s/%d at rest is %v but LeaderCh holds %v", in.ID(), in.Gen, in.R.State(), v)
				}
			default:
				// (empty is right if the harness took the value in mid-run and nothing changed since)
				if st := r.ist[in]; gains > 0 && !(st != nil && st.peekedSomething && st.peekStates == gains+losses && st.peekedValue == isLeader) {
					w.ViolateLocked("C18", "R2", "C18/R2/leaderch-empty-after-transitions", "%s/%d had %d leadership gains but LeaderCh (never read) is empty", in.ID(), in.Gen, gains)
				}
			}
		}
	}
	// C13/R2: a fault-free cluster keeps one leader and one term
	if r.P.Profile == "leaselong" || r.P.Profile == "leasejoin" {
		ls := w.O.Leaders()
		if len(ls) > 1 {
			w.ViolateLocked("C13", "R2", "C13/R2/leader-change-in-a-fault-free-run", "fault-free run of %d ms saw %d leaderships: %v", w.Now(), len(ls), w.O.LeaderSeq)
		}
		if len(ls) == 1 {
			for _, id := range r.ids {
				if in := w.Servers[id].Inst; in != nil && in.R != nil && in.R.CurrentTerm() != ls[0].Term && in.R.State() != raft.Shutdown {
					w.ViolateLocked("C13", "R2", "C13/R2/term-change-in-a-fault-free-run", "fault-free run: leader %s of term %d, but %s is in term %d", ls[0].Srv, ls[0].Term, id, in.R.CurrentTerm())
				}
			}
		}
	}
	// C17/R2: calls made after a completed shutdown
	for _, op := range r.Ops {
		if len(op.Kind) < 15 || op.Kind[:15] != "after-shutdown:" {
			continue
		}
		name := op.Kind[15:]
		if !op.Done {
			continue // reported by the unresolved-future rule
		}
		if name == "GetConfiguration" {
			continue // answered from a local copy, documented not to need the main loop
		}
		if op.err == raft.ErrUnsupportedProtocol {
			continue // refused before it reaches any queue: the server runs an older protocol version
		}
		if op.err != raft.ErrRaftShutdown {
			w.ViolateLocked("C17", "R2", "C17/R2/"+name+"-after-shutdown-does-not-report-shutdown", "%s on %s after Shutdown().Error() returned: %v (want ErrRaftShutdown)", name, op.Srv, op.err)
		}
	}
	// C20/R1: the leader's FSM after a successful Restore is the supplied
	// snapshot plus later entries only
	for _, rr := range r.restores {
		if !rr.op.Done || rr.op.err != nil || rr.op.inst.DeadLocked() {
			continue
		}
		r.feat("user-restore-ok")
	}
}
