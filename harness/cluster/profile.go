package cluster

// Profile-specific sampling and final rules (C13, C14, C18, ...). Filled in
// per property; the base versions do nothing.

func (r *Runner) sampleProfile() {}

func (r *Runner) finalProfile() {}

func (r *Runner) execMacro(a Action) {}
