// Package rep collects what a check run covered (cases, non-trivial feature
// hashes, class histogram, samples, violations) and writes it as one JSON shard
// report that bin/check merges into /verif/evidence/<id>.json.
package rep

import (
	"encoding/json"
	"fmt"
	"hash/fnv"
	"os"
	"path/filepath"
	"sort"
	"strconv"
	"sync"
)

type Violation struct {
	Property  string `json:"property"`
	Rule      string `json:"rule"`
	Signature string `json:"signature"`
	Detail    string `json:"detail"`
	Replay    string `json:"replay,omitempty"`
	Count     int    `json:"count"`
}

type Report struct {
	mu          sync.Mutex
	Property    string
	Part        string
	evals       int
	nontrivial  int
	hashes      map[uint64]struct{}
	classes     map[string]int
	samples     []any
	ntSamples   int
	violations  map[string]*Violation
	order       []string
	Exhaustive  bool
	Requested   int
	notes       []string
	frozen      bool
	excluded    map[string]int
	MaxSamples  int
	extra       map[string]any
	distinctCtr int
}

func New(property, part string) *Report {
	return &Report{Property: property, Part: part, hashes: map[uint64]struct{}{}, classes: map[string]int{},
		violations: map[string]*Violation{}, excluded: map[string]int{}, MaxSamples: 4, extra: map[string]any{}}
}

func Hash(parts ...any) uint64 {
	h := fnv.New64a()
	for _, p := range parts {
		fmt.Fprintf(h, "%v|", p)
	}
	return h.Sum64()
}

// Case records one executed case. feature identifies the case's shape for the
// distinct count; it only counts when nontrivial is true.
func (r *Report) Case(nontrivial bool, feature uint64, classes ...string) {
	r.mu.Lock()
	defer r.mu.Unlock()
	if r.frozen {
		return
	}
	r.evals++
	if nontrivial {
		r.nontrivial++
		if len(r.hashes) < 400000 {
			r.hashes[feature] = struct{}{}
		}
	}
	for _, c := range classes {
		r.classes[c]++
	}
}

func (r *Report) Class(c string, n int) {
	r.mu.Lock()
	defer r.mu.Unlock()
	if r.frozen {
		return
	}
	r.classes[c] += n
}

// CaseDistinct records a case of an enumeration in which every case is
// distinct by construction (no hashing needed).
func (r *Report) CaseDistinct(nontrivial bool, classes ...string) {
	r.mu.Lock()
	defer r.mu.Unlock()
	if r.frozen {
		return
	}
	r.evals++
	if nontrivial {
		r.nontrivial++
		r.distinctCtr++
	}
	for _, c := range classes {
		r.classes[c]++
	}
}

// Sample keeps the first MaxSamples samples offered (prefer offering
// non-trivial cases).
func (r *Report) Sample(v any) {
	r.mu.Lock()
	defer r.mu.Unlock()
	if r.frozen || len(r.samples) >= r.MaxSamples {
		return
	}
	r.samples = append(r.samples, v)
}

func (r *Report) WantSample() bool {
	r.mu.Lock()
	defer r.mu.Unlock()
	return !r.frozen && len(r.samples) < r.MaxSamples
}

func (r *Report) Note(s string) {
	r.mu.Lock()
	defer r.mu.Unlock()
	r.notes = append(r.notes, s)
}

func (r *Report) Extra(k string, v any) {
	r.mu.Lock()
	defer r.mu.Unlock()
	r.extra[k] = v
}

func (r *Report) Excluded(sig string) {
	r.mu.Lock()
	defer r.mu.Unlock()
	r.excluded[sig]++
}

// Violate records a violation; the last detail/replay for a signature wins (so
// that a shrunk reproduction replaces the first one). Returns true the first
// time a signature is seen.
func (r *Report) Violate(property, rule, signature, detail, replay string) bool {
	r.mu.Lock()
	defer r.mu.Unlock()
	key := property + "\x00" + signature
	v, ok := r.violations[key]
	if !ok {
		v = &Violation{Property: property, Rule: rule, Signature: signature}
		r.violations[key] = v
		r.order = append(r.order, key)
	}
	v.Count++
	v.Detail = detail
	if replay != "" {
		v.Replay = replay
	}
	return !ok
}

func (r *Report) Violations() int {
	r.mu.Lock()
	defer r.mu.Unlock()
	return len(r.violations)
}

// Freeze stops counting cases (used once a failure was seen, so that rapid's
// shrinking re-executions do not inflate the counts).
func (r *Report) Freeze() {
	r.mu.Lock()
	defer r.mu.Unlock()
	r.frozen = true
}

func (r *Report) Frozen() bool {
	r.mu.Lock()
	defer r.mu.Unlock()
	return r.frozen
}

func Shard() int {
	n, _ := strconv.Atoi(os.Getenv("VERIF_SHARD"))
	return n
}

func Shards() int {
	n, _ := strconv.Atoi(os.Getenv("VERIF_SHARDS"))
	if n <= 0 {
		n = 1
	}
	return n
}

func Tier() string {
	if t := os.Getenv("VERIF_TIER"); t != "" {
		return t
	}
	return "quick"
}

func Thorough() bool { return Tier() == "thorough" }

// Scale returns q in the quick tier and th in the thorough tier.
func Scale(q, th int) int {
	if Thorough() {
		return th
	}
	return q
}

func OutDir() string {
	d := os.Getenv("VERIF_OUT")
	if d == "" {
		d = filepath.Join(os.TempDir(), "verif-out")
	}
	_ = os.MkdirAll(d, 0o755)
	return d
}

func ReplayDir() string {
	d := os.Getenv("VERIF_REPLAYS")
	if d == "" {
		d = filepath.Join(os.TempDir(), "verif-replays")
	}
	_ = os.MkdirAll(d, 0o755)
	return d
}

// Flush writes the shard report.
func (r *Report) Flush() {
	r.mu.Lock()
	defer r.mu.Unlock()
	hs := make([]string, 0, len(r.hashes))
	for h := range r.hashes {
		hs = append(hs, strconv.FormatUint(h, 36))
	}
	sort.Strings(hs)
	vs := []*Violation{}
	for _, k := range r.order {
		vs = append(vs, r.violations[k])
	}
	out := map[string]any{
		"property":                 r.Property,
		"part":                     r.Part,
		"shard":                    Shard(),
		"evaluations":              r.evals,
		"nontrivial":               r.nontrivial,
		"hashes":                   hs,
		"classes":                  r.classes,
		"samples":                  r.samples,
		"violations":               vs,
		"exhaustive":               r.Exhaustive,
		"requested":                r.Requested,
		"notes":                    r.notes,
		"excluded":                 r.excluded,
		"extra":                    r.extra,
		"distinct_by_construction": r.distinctCtr,
	}
	b, err := json.Marshal(out)
	if err != nil {
		b, _ = json.Marshal(map[string]any{"property": r.Property, "part": r.Part, "error": err.Error()})
	}
	name := fmt.Sprintf("%s-%s-%d.json", r.Property, r.Part, Shard())
	tmp := filepath.Join(OutDir(), name+".tmp")
	if err := os.WriteFile(tmp, b, 0o644); err == nil {
		_ = os.Rename(tmp, filepath.Join(OutDir(), name))
	}
}
