package solo

// C04 — AppendEntries consistency at the handler: exhaustive small scope.
//
// Follower log F x leader log L (term sequences that satisfy log matching:
// they agree exactly on a common prefix) x every previous-entry position x
// every batch end x leader commit, with and without a follower snapshot
// boundary. Oracle: the Raft receiver rules applied to a copy.

import (
	"encoding/json"
	"fmt"
	"os"
	"testing"
	"time"

	"github.com/hashicorp/raft"
	"pgregory.net/rapid"

	"verif/harness/rep"
	"verif/harness/sim"
)

type C04Req struct {
	Prev   int  `json:"prev"`   // index of the previous entry (0 = none)
	End    int  `json:"end"`    // index of the last entry sent (== Prev: none)
	Commit bool `json:"commit"` // leader commit = End (else 0)
}

type C04Case struct {
	F       []uint64 `json:"follower_terms"` // terms of follower entries, index 2.. (index 1 is the configuration entry, term 1)
	L       []uint64 `json:"leader_terms"`
	Snap    int      `json:"snapshot"`  // follower snapshot index (0 = none)
	Compact bool     `json:"compacted"` // follower log compacted up to the snapshot
	TermUp  bool     `json:"leader_term_above"`
	Reqs    []C04Req `json:"requests"`
	Flavour int      `json:"flavour"`
	// Fail: the k-th log-store mutation (StoreLogs / DeleteRange made while
	// handling a request) returns an error once; the leader then sends the same
	// request again (0 = no fault)
	Fail int `json:"failing_store_op,omitempty"`
}

func (c C04Case) String() string {
	return fmt.Sprintf("F=%v L=%v snap=%d compacted=%v termUp=%v flavour=%d reqs=%v failing-store-op=%d", c.F, c.L, c.Snap, c.Compact, c.TermUp, c.Flavour, c.Reqs, c.Fail)
}

func c04Payload(index, term uint64) uint64 { return 1000*term + index }

func c04Entry(index, term uint64) Entry {
	if index == 1 {
		return Entry{Term: 1, Config: []string{"r", "a", "b"}}
	}
	return Entry{Term: term, Payload: c04Payload(index, term)}
}

// full term list including index 1
func withCfg(ts []uint64) []uint64 { return append([]uint64{1}, ts...) }

// c04Compatible: the two logs agree exactly on a common prefix (log matching).
func c04Compatible(f, l []uint64) bool {
	diverged := false
	for i := 0; i < len(f) && i < len(l); i++ {
		if f[i] != l[i] {
			diverged = true
		} else if diverged {
			return false
		}
	}
	return true
}

type c04Result struct {
	viol     []string
	conflict bool
	overlap  bool
	boundary bool
	muts     int  // log-store mutations made while requests were handled
	faulted  bool // the injected store error hit
}

func c04Run(c C04Case) c04Result {
	var res c04Result
	F, L := withCfg(c.F), withCfg(c.L)
	var maxF, maxL uint64 = 1, 1
	for _, t := range F {
		if t > maxF {
			maxF = t
		}
	}
	for _, t := range L {
		if t > maxL {
			maxL = t
		}
	}
	seed := Seed{Term: maxF, Flavour: c.Flavour}
	first := 1
	if c.Snap > 0 {
		st := sim.FSMState{}
		for i := 2; i <= c.Snap; i++ {
			st.Fold(uint64(i), F[i-1], c04Payload(uint64(i), F[i-1]))
		}
		seed.Snap = &SnapSeed{Index: uint64(c.Snap), Term: F[c.Snap-1], Config: []string{"r", "a", "b"}, ConfigIndex: 1, State: st}
		if c.Compact {
			first = c.Snap + 1
		}
	}
	seed.First = uint64(first)
	for i := first; i <= len(F); i++ {
		seed.Log = append(seed.Log, c04Entry(uint64(i), F[i-1]))
	}
	h := New(seed, []string{"a", "b"})
	var deletes [][2]uint64
	failedNow := false
	h.W.FaultPlan = func(op *sim.DiskOp) sim.Decision {
		if (op.Kind == sim.OpDeleteRange || op.Kind == sim.OpStoreLogs) && op.Site == "appendEntries" {
			res.muts++
			if res.muts == c.Fail {
				failedNow = true
				res.faulted = true
				return sim.DoError
			}
		}
		if op.Kind == sim.OpDeleteRange && op.Site == "appendEntries" {
			deletes = append(deletes, [2]uint64{op.Min, op.Max})
		}
		return sim.DoOK
	}
	in := h.Start(5 * time.Second)
	if in.R == nil {
		res.viol = append(res.viol, fmt.Sprintf("R0|C04/R0/newraft-fails|%v %v", in.StartErr, in.StartPanic))
		return res
	}
	T := maxL
	if maxF > T {
		T = maxF
	}
	if c.TermUp {
		T++
	}
	// reference follower: terms by index (0 = absent)
	ref := map[int]uint64{}
	for i := first; i <= len(F); i++ {
		ref[i] = F[i-1]
	}
	refLast := func() int {
		m := 0
		for i := range ref {
			if i > m {
				m = i
			}
		}
		return m
	}
	for step := 0; step < len(c.Reqs); step++ {
		q := c.Reqs[step]
		req := &raft.AppendEntriesRequest{RPCHeader: Header("a"), Term: T, Leader: []byte("addr-a"), PrevLogEntry: uint64(q.Prev)}
		if q.Prev > 0 {
			req.PrevLogTerm = L[q.Prev-1]
		}
		for i := q.Prev + 1; i <= q.End; i++ {
			req.Entries = append(req.Entries, c04Entry(uint64(i), L[i-1]).Log(uint64(i)))
		}
		if q.Commit {
			req.LeaderCommitIndex = uint64(q.End)
		}
		// reference decision
		wantOK := true
		switch {
		case q.Prev == 0:
		case q.Prev <= c.Snap:
			// at or below the snapshot boundary: committed, known
			if q.Prev == c.Snap && L[q.Prev-1] != F[c.Snap-1] {
				wantOK = false
			}
		default:
			if t, ok := ref[q.Prev]; !ok || t != L[q.Prev-1] {
				wantOK = false
			}
		}
		wantDelFrom := 0
		before := map[int]uint64{}
		for k, v := range ref {
			before[k] = v
		}
		oldLast := refLast()
		if wantOK {
			for i := q.Prev + 1; i <= q.End; i++ {
				if i <= c.Snap {
					continue
				}
				if t, ok := ref[i]; ok {
					res.overlap = true
					if t == L[i-1] {
						continue
					}
					res.conflict = true
					wantDelFrom = i
					for j := i; j <= oldLast; j++ {
						delete(ref, j)
					}
				}
				ref[i] = L[i-1]
			}
		}
		if q.Prev == c.Snap && c.Snap > 0 {
			res.boundary = true
		}
		deletes = deletes[:0]
		failedNow = false
		resp, rerr, answered := h.RPC(sim.KAppend, "a", req, nil)
		desc := fmt.Sprintf("step %d AE(term %d prev=%d/%d entries %d..%d commit=%v)", step, T, q.Prev, req.PrevLogTerm, q.Prev+1, q.End, q.Commit)
		if !answered || rerr != nil {
			res.viol = append(res.viol, fmt.Sprintf("R0|C04/R0/no-answer|%s: answered=%v err=%v", desc, answered, rerr))
			return res
		}
		ok := resp.(*raft.AppendEntriesResponse).Success
		// compare the durable log with the reference
		d := h.Disk()
		h.W.Mu.Lock()
		got := map[int]uint64{}
		bad := ""
		for i, l := range d.Logs {
			got[int(i)] = l.Term
			if want := c04Entry(i, l.Term).Log(i); string(want.Data) != string(l.Data) || want.Type != l.Type {
				bad = fmt.Sprintf("entry %d/%d holds foreign content", i, l.Term)
			}
		}
		h.W.Mu.Unlock()
		same := len(got) == len(ref)
		for k, v := range ref {
			if got[k] != v {
				same = false
			}
		}
		if failedNow && bad == "" {
			// a store operation failed while this request was handled: it cannot have
			// been acknowledged; what is left is old or sent content; the leader
			// repeats the request, judged against what is on disk now
			if ok {
				res.viol = append(res.viol, fmt.Sprintf("R1|C04/R1/acknowledged-although-the-log-store-failed|%s: Success=true, log %v", desc, got))
				break
			}
			for k, v := range got {
				sent := k > q.Prev && k <= q.End && v == L[k-1]
				if before[k] != v && !sent {
					res.viol = append(res.viol, fmt.Sprintf("R3|C04/R3/failed-request-left-foreign-content|%s: entry %d/%d, log before %v", desc, k, v, before))
				}
			}
			if len(res.viol) > 0 {
				break
			}
			ref = got
			step--
			continue
		}
		switch {
		case bad != "":
			res.viol = append(res.viol, "R1|C04/R1/stored-entry-differs-from-sent|"+desc+": "+bad)
		case ok != wantOK:
			res.viol = append(res.viol, fmt.Sprintf("R1|C04/R1/success-flag-differs-from-receiver-rules|%s: Success=%v, receiver rules say %v (log before %v)", desc, ok, wantOK, before))
		case ok && !same:
			res.viol = append(res.viol, fmt.Sprintf("R1|C04/R1/log-after-success-differs-from-leader|%s: log %v, expected %v", desc, got, ref))
		case !ok && !same:
			res.viol = append(res.viol, fmt.Sprintf("R3|C04/R3/rejected-request-changed-the-log|%s: log %v, before %v", desc, got, before))
		}
		if ok && wantOK {
			if wantDelFrom == 0 && len(deletes) > 0 {
				res.viol = append(res.viol, fmt.Sprintf("R2|C04/R2/deleted-without-conflict|%s: deleted %v", desc, deletes))
			}
			if wantDelFrom > 0 && (len(deletes) != 1 || deletes[0][0] != uint64(wantDelFrom) || deletes[0][1] != uint64(oldLast)) {
				res.viol = append(res.viol, fmt.Sprintf("R2|C04/R2/deletion-does-not-start-at-first-conflict|%s: deleted %v, first conflict at %d, old last %d", desc, deletes, wantDelFrom, oldLast))
			}
		}
		// R4 terms never decrease along the log
		prev := uint64(0)
		for i := 1; i <= refLast()+2; i++ {
			if t, okk := got[i]; okk {
				if t < prev {
					res.viol = append(res.viol, fmt.Sprintf("R4|C04/R4/terms-decrease-within-log|%s: log %v", desc, got))
				}
				prev = t
			}
		}
		if len(res.viol) > 0 {
			break
		}
	}
	for _, v := range h.W.Violations() {
		if v.Property == "C04" || v.Property == "C11" {
			res.viol = append(res.viol, v.Rule+"|"+v.Sig+"|"+v.Detail)
		}
	}
	h.Reap()
	return res
}

func termSeqs(maxLen int, maxTerm uint64) [][]uint64 {
	out := [][]uint64{{}}
	var rec func(cur []uint64)
	rec = func(cur []uint64) {
		if len(cur) == maxLen {
			return
		}
		lo := uint64(1)
		if len(cur) > 0 {
			lo = cur[len(cur)-1]
		}
		for t := lo; t <= maxTerm; t++ {
			n := append(append([]uint64(nil), cur...), t)
			out = append(out, n)
			rec(n)
		}
	}
	rec(nil)
	return out
}

func c04Report(r *rep.Report, c C04Case, v string) {
	parts := splitN(v, "|", 3)
	path := fmt.Sprintf("%s/C04-%s-%d.json", rep.ReplayDir(), sanitize(parts[1]), os.Getpid())
	b, _ := json.MarshalIndent(map[string]any{"property": "C04", "engine": "solo", "test": "TestC04Replay", "case": c,
		"verdict": map[string]string{"rule": parts[0], "signature": parts[1], "detail": parts[2]}}, "", " ")
	_ = os.WriteFile(path, b, 0o644)
	r.Violate("C04", parts[0], parts[1], c.String()+": "+parts[2], path)
}

func TestC04Enumerate(t *testing.T) {
	r := rep.New("C04", "enumerate")
	r.Extra("test", "TestC04Enumerate")
	defer r.Flush()
	r.Exhaustive = true
	maxLen := rep.Scale(3, 4)
	seqs := termSeqs(maxLen, 3)
	r.Extra("term_sequences", len(seqs))
	shard, shards := rep.Shard(), rep.Shards()
	n := 0
	for _, f := range seqs {
		for _, l := range seqs {
			if !c04Compatible(f, l) {
				continue
			}
			for snap := 0; snap <= len(f)+1; snap++ {
				if snap == 1 {
					continue
				}
				// the leader's log holds everything the follower snapshotted
				if snap > 0 {
					if snap > len(f)+1 || snap > len(l)+1 {
						continue
					}
					agree := true
					for i := 0; i < snap-1; i++ {
						if f[i] != l[i] {
							agree = false
						}
					}
					if !agree {
						continue
					}
				}
				for _, compact := range []bool{false, true} {
					if snap == 0 && compact {
						continue
					}
					for _, flavour := range []int{0, 1} {
						for prev := 0; prev <= len(l)+1; prev++ {
							for end := prev; end <= len(l)+1; end++ {
								for _, commit := range []bool{false, true} {
									n++
									if n%shards != shard {
										continue
									}
									c := C04Case{F: f, L: l, Snap: snap, Compact: compact, Flavour: flavour, TermUp: n%3 == 0, Reqs: []C04Req{{Prev: prev, End: end, Commit: commit}}}
									var res c04Result
									sim.Bubble(t, func() { res = c04Run(c) })
									nt := res.overlap || res.conflict || res.boundary
									cls := []string{}
									if res.conflict {
										cls = append(cls, "conflict")
									}
									if res.overlap {
										cls = append(cls, "overlap")
									}
									if res.boundary {
										cls = append(cls, "prev-at-snapshot-boundary")
									}
									r.CaseDistinct(nt, cls...)
									if len(res.viol) > 0 {
										c04Report(r, c, res.viol[0])
										t.Errorf("C04 violation: %s", res.viol[0])
										return
									}
									if r.WantSample() && res.conflict && res.boundary {
										r.Sample(c.String())
									}
									for k := 1; k <= res.muts; k++ {
										fc := c
										fc.Fail = k
										var fr c04Result
										sim.Bubble(t, func() { fr = c04Run(fc) })
										r.CaseDistinct(fr.faulted, "log-store-error-then-retry")
										if len(fr.viol) > 0 {
											c04Report(r, fc, fr.viol[0])
											t.Errorf("C04 violation: %s", fr.viol[0])
											return
										}
									}
								}
							}
						}
					}
				}
			}
		}
	}
}

func TestC04Random(t *testing.T) {
	r := rep.New("C04", "random")
	r.Extra("test", "TestC04Random")
	defer r.Flush()
	seqs := termSeqs(5, 4)
	rapid.Check(t, func(rt *rapid.T) {
		f := seqs[rapid.IntRange(0, len(seqs)-1).Draw(rt, "f")]
		l := seqs[rapid.IntRange(0, len(seqs)-1).Draw(rt, "l")]
		if !c04Compatible(f, l) {
			// make them compatible by construction: leader = common prefix of f + own tail above it
			k := rapid.IntRange(0, min(len(f), len(l))).Draw(rt, "prefix")
			nl := append([]uint64(nil), f[:k]...)
			for _, t := range l[k:] {
				lo := uint64(1)
				if len(nl) > 0 {
					lo = nl[len(nl)-1]
				}
				if k < len(f) && len(nl) == k && t == f[k] {
					t++ // must differ where they diverge
				}
				if t < lo {
					t = lo
				}
				nl = append(nl, t)
			}
			l = nl
			if !c04Compatible(f, l) {
				rt.Skip("incompatible")
			}
		}
		c := C04Case{F: f, L: l, Flavour: rapid.IntRange(0, 1).Draw(rt, "flavour"), TermUp: rapid.Bool().Draw(rt, "termUp")}
		// optional snapshot inside the agreed prefix
		agree := 0
		for agree < len(f) && agree < len(l) && f[agree] == l[agree] {
			agree++
		}
		if agree > 0 && rapid.Bool().Draw(rt, "snap") {
			c.Snap = 1 + rapid.IntRange(1, agree).Draw(rt, "snapIdx")
			c.Compact = rapid.Bool().Draw(rt, "compact")
		}
		nreq := rapid.IntRange(1, 5).Draw(rt, "nreq")
		for i := 0; i < nreq; i++ {
			p := rapid.IntRange(0, len(l)+1).Draw(rt, "prev")
			e := rapid.IntRange(p, len(l)+1).Draw(rt, "end")
			c.Reqs = append(c.Reqs, C04Req{Prev: p, End: e, Commit: rapid.Bool().Draw(rt, "commit")})
		}
		if rapid.IntRange(0, 2).Draw(rt, "storeFault") == 0 {
			c.Fail = rapid.IntRange(1, 6).Draw(rt, "failingOp")
		}
		var res c04Result
		sim.Bubble(t, func() { res = c04Run(c) })
		r.Case(res.overlap || res.conflict || res.boundary, rep.Hash(c.String()), map[bool]string{true: "log-store-error-then-retry", false: "no-store-error"}[res.faulted])
		if res.conflict && len(c.Reqs) > 1 {
			r.Sample(c.String())
		}
		if len(res.viol) > 0 {
			c04Report(r, c, res.viol[0])
			r.Freeze()
			rt.Fatalf("%s", res.viol[0])
		}
	})
}

func TestC04Replay(t *testing.T) {
	path := os.Getenv("VERIF_REPLAY")
	if path == "" {
		t.Skip("no VERIF_REPLAY")
	}
	b, err := os.ReadFile(path)
	if err != nil {
		t.Fatal(err)
	}
	var f struct{ Case C04Case }
	if err := json.Unmarshal(b, &f); err != nil {
		t.Fatal(err)
	}
	var res c04Result
	sim.Bubble(t, func() { res = c04Run(f.Case) })
	if len(res.viol) > 0 {
		fmt.Printf("REPLAY-VIOLATION property=C04 %s\n", res.viol[0])
		return
	}
	fmt.Println("REPLAY-OK property=C04 (no violation on this tree)")
}
