package solo

// C06 — vote and term integrity across crashes and store failures.
//
// Fault enumeration: every short sequence of RequestVote / RequestPreVote /
// AppendEntries messages over every small initial persisted state, and for
// each sequence every stable-store write is turned into {error (where raft
// handles one), crash-before, crash-after} followed by a restart and the rest
// of the sequence.

import (
	"encoding/json"
	"fmt"
	"os"
	"testing"
	"testing/synctest"
	"time"

	"github.com/hashicorp/raft"
	"pgregory.net/rapid"

	"verif/harness/rep"
	"verif/harness/sim"
)

type VMsg struct {
	Kind     string `json:"kind"` // RV | PV | AE
	Term     int    `json:"term"` // relative to the seed's current term: -1, 0, +1, +2
	Cand     string `json:"cand"`
	Log      int    `json:"log"` // 0 behind by index, 1 behind by term, 2 equal, 3 ahead
	Transfer bool   `json:"transfer,omitempty"`
}

func (m VMsg) String() string {
	l := [...]string{"behind-idx", "behind-term", "equal", "ahead"}[m.Log]
	if m.Kind == "AE" {
		return fmt.Sprintf("AE(term%+d,%s)", m.Term, m.Cand)
	}
	if m.Kind == "TO" {
		return "election-timeout"
	}
	t := ""
	if m.Transfer {
		t = ",transfer"
	}
	return fmt.Sprintf("%s(term%+d,%s,%s%s)", m.Kind, m.Term, m.Cand, l, t)
}

type C06Case struct {
	CfgKind  string `json:"config"` // member | nonvoter | absent | empty | demoted | promoted ("n" is a non-voter in all but the last)
	Term     uint64 `json:"term"`
	VoteTerm uint64 `json:"vote_term"`
	VoteCand string `json:"vote_cand"`
	LogLen   int    `json:"log_len"`             // entries after the configuration entry
	Compact  bool   `json:"compacted,omitempty"` // the whole log is covered by a snapshot and compacted away (TrailingLogs=0)
	Msgs     []VMsg `json:"msgs"`
	FaultAt  int    `json:"fault_at"`                // ordinal of the stable-store write to disturb (0 = none)
	ReadAt   int    `json:"read_fault_at,omitempty"` // ordinal of the vote-record read (LastVoteTerm / LastVoteCand, while handling a request) that fails (0 = none)
	Mode     int    `json:"fault_mode"`              // sim.Decision
}

func (c C06Case) String() string {
	return fmt.Sprintf("config=%s term=%d vote=(%d,%s) loglen=%d msgs=%v fault@%d mode=%d readfault@%d", c.CfgKind, c.Term, c.VoteTerm, c.VoteCand, c.LogLen, c.Msgs, c.FaultAt, c.Mode, c.ReadAt)
}

func c06Seed(c C06Case) (Seed, []string) {
	var cfg []string
	switch c.CfgKind {
	case "member":
		cfg = []string{"r", "a", "b", "n:n"}
	case "nonvoter":
		cfg = []string{"r:n", "a", "b", "n:n"}
	case "absent":
		cfg = []string{"a", "b", "c", "n:n"}
	case "demoted", "promoted":
		// two configuration entries: the server's configuration is the later
		// one, whether or not it knows it to be committed
		cfg = []string{"r", "a", "b", "n"}
		if c.CfgKind == "promoted" {
			cfg = []string{"r", "a", "b", "n:n"}
		}
	}
	s := Seed{Term: c.Term, VoteTerm: c.VoteTerm, VoteCand: c.VoteCand}
	if cfg != nil {
		s.Log = append(s.Log, Entry{Term: 1, Config: cfg})
		switch c.CfgKind {
		case "demoted":
			cfg = []string{"r", "a", "b", "n:n"}
			s.Log = append(s.Log, Entry{Term: 1, Config: cfg})
		case "promoted":
			cfg = []string{"r", "a", "b", "n"}
			s.Log = append(s.Log, Entry{Term: 1, Config: cfg})
		}
		for i := 0; i < c.LogLen; i++ {
			// (the last two entries share a term: "shorter log, same last term" is a case of its own)
			s.Log = append(s.Log, Entry{Term: uint64(i/2 + 2), Payload: uint64(100 + i)})
		}
	} else {
		s.Term, s.VoteTerm, s.VoteCand = 0, 0, ""
	}
	if c.Compact && len(s.Log) > 0 {
		n := uint64(len(s.Log))
		s.Snap = &SnapSeed{Index: n, Term: s.Log[n-1].Term, Config: cfg, ConfigIndex: 1}
		for i := 1; i < len(s.Log); i++ {
			if p := s.Log[i].Payload; p != 0 {
				s.Snap.State.Fold(uint64(i+1), s.Log[i].Term, p)
			}
		}
		s.Compacted = s.Log
		s.Log = nil
	}
	return s, []string{"a", "b", "c", "n", "x"}
}

type c06Result struct {
	voteReads int
	stableOps int
	viol      []string // rule|signature|detail
	grants    int
	selfVotes int
	faulted   bool
}

// c06Run executes one case in the current bubble.
func c06Run(c C06Case) c06Result {
	var res c06Result
	seed, peers := c06Seed(c)
	h := New(seed, peers)
	w := h.W
	w.Net.RPCTimeout = 3 * time.Hour // requests of the server itself stay pending until the harness answers them
	stable := 0
	w.FaultPlan = func(op *sim.DiskOp) sim.Decision {
		if op.Kind != sim.OpSet && op.Kind != sim.OpSetUint64 {
			return sim.DoOK
		}
		if op.Site == "NewRaft" {
			return sim.DoOK // start-up rewrite of the term, not part of a vote
		}
		stable++
		if c.FaultAt != 0 && stable == c.FaultAt {
			res.faulted = true
			d := sim.Decision(c.Mode)
			if d == sim.DoError && op.Site == "setCurrentTerm" {
				d = sim.DoCrashBefore // raft panics when the term cannot be saved
			}
			return d
		}
		return sim.DoOK
	}
	in := h.Start(5 * time.Second)
	if in.R == nil {
		res.viol = append(res.viol, fmt.Sprintf("R3|C06/R3/newraft-fails|NewRaft failed: %v %v", in.StartErr, in.StartPanic))
		return res
	}
	// reads of the vote record made while a request is handled (not at start-up)
	w.StableReadFault = func(_ *sim.Instance, key string) bool {
		if key != "LastVoteTerm" && key != "LastVoteCand" {
			return false
		}
		res.voteReads++
		if c.ReadAt != 0 && res.voteReads == c.ReadAt {
			res.faulted = true
			return true
		}
		return false
	}
	if seed.Compacted != nil {
		seed.Log = seed.Compacted // the reference below reasons about the history, wherever it is stored
	}
	lastIdx, lastTerm := uint64(len(seed.Log)), uint64(0)
	if n := len(seed.Log); n > 0 {
		lastTerm = seed.Log[n-1].Term
	}
	cfg := ParseConfig(nil)
	for _, e := range seed.Log {
		if e.Config != nil {
			cfg = ParseConfig(e.Config) // the latest configuration in the log
		}
	}
	isVoter := func(id string) bool {
		for _, s := range cfg.Servers {
			if string(s.ID) == id {
				return s.Suffrage == raft.Voter
			}
		}
		return false
	}
	// what the world has seen
	granted := map[uint64]string{} // term -> candidate that received a grant
	if seed.VoteTerm > 0 {
		// a durable vote may have been answered before the scenario begins
		granted[seed.VoteTerm] = seed.VoteCand
	}
	var maxRespTerm uint64
	for step, m := range c.Msgs {
		term := uint64(int(seed.Term) + m.Term)
		if int(seed.Term)+m.Term < 0 {
			term = 0
		}
		var li, lt uint64
		switch m.Log {
		case 0:
			if lastIdx > 0 {
				li = lastIdx - 1
				if li > 0 {
					lt = seed.Log[li-1].Term
				}
			}
		case 1:
			li = lastIdx + 5
			if lastTerm > 0 {
				lt = lastTerm - 1
			}
			if lt == 0 {
				li = 0
			}
		case 2:
			li, lt = lastIdx, lastTerm
		case 3:
			li, lt = lastIdx+1, lastTerm
			if lt == 0 {
				lt = 1
			}
		}
		behind := lt < lastTerm || (lt == lastTerm && li < lastIdx)
		termBefore := h.In.R.CurrentTerm()
		stableBefore := stable
		var resp any
		var answered bool
		switch m.Kind {
		case "RV":
			req := &raft.RequestVoteRequest{RPCHeader: Header(m.Cand), Term: term, Candidate: []byte("addr-" + m.Cand), LastLogIndex: li, LastLogTerm: lt, LeadershipTransfer: m.Transfer}
			resp, _, answered = h.RPC(sim.KVote, m.Cand, req, nil)
		case "PV":
			req := &raft.RequestPreVoteRequest{RPCHeader: Header(m.Cand), Term: term, LastLogIndex: li, LastLogTerm: lt}
			resp, _, answered = h.RPC(sim.KPreVote, m.Cand, req, nil)
		case "AE":
			req := &raft.AppendEntriesRequest{RPCHeader: Header(m.Cand), Term: term, Leader: []byte("addr-" + m.Cand)}
			resp, _, answered = h.RPC(sim.KHeartbeat, m.Cand, req, nil)
		case "TO":
			// the server's own election timer fires (timers are an hour long): the
			// peers grant its pre-vote and refuse its vote request. A vote request
			// it sends for term T shows that it has given its vote of T to itself.
			time.Sleep(2*time.Hour + time.Millisecond)
			for round := 0; round < 6; round++ {
				synctest.Wait()
				out := w.Net.TakeScripted()
				if os.Getenv("C06DBG") != "" {
					fmt.Printf("DBG round %d out=%d state=%v term=%d now=%v\n", round, len(out), h.In.R.State(), h.In.R.CurrentTerm(), w.Now())
				}
				if len(out) == 0 {
					break
				}
				for _, om := range out {
					switch q := om.Req.(type) {
					case *raft.RequestPreVoteRequest:
						w.Net.Answer(om, &raft.RequestPreVoteResponse{RPCHeader: Header(om.To), Term: q.Term - 1, Granted: true}, nil)
					case *raft.RequestVoteRequest:
						if prev, ok := granted[q.Term]; ok && prev != "self" {
							res.viol = append(res.viol, fmt.Sprintf("R1|C06/R1/two-candidates-granted-in-one-term|step %d %v: stands for term %d itself after a grant to %s", step, m, q.Term, prev))
						}
						granted[q.Term] = "self"
						res.selfVotes++
						w.Net.Answer(om, &raft.RequestVoteResponse{RPCHeader: Header(om.To), Term: q.Term, Granted: false}, nil)
					default:
						w.Net.Answer(om, nil, sim.ErrSimRefused)
					}
				}
			}
			synctest.Wait()
		}
		crashed := h.In.Dead()
		if crashed {
			answered = false // the answer of a crashed process reaches nobody
		}
		if answered && resp != nil {
			var rterm uint64
			switch r := resp.(type) {
			case *raft.RequestVoteResponse:
				rterm = r.Term
				if r.Granted {
					res.grants++
					if prev, ok := granted[term]; ok && prev != m.Cand {
						res.viol = append(res.viol, fmt.Sprintf("R1|C06/R1/two-candidates-granted-in-one-term|step %d %v: granted to %s in term %d after a grant to %s", step, m, m.Cand, term, prev))
					}
					first := granted[term] != m.Cand
					granted[term] = m.Cand
					if first && behind {
						res.viol = append(res.viol, fmt.Sprintf("R2|C06/R2/vote-granted-to-candidate-with-stale-log|step %d %v: candidate last (%d,%d) is behind the voter's (%d,%d)", step, m, li, lt, lastIdx, lastTerm))
					}
					if len(cfg.Servers) > 0 && !isVoter(m.Cand) {
						res.viol = append(res.viol, fmt.Sprintf("R2|C06/R2/vote-granted-to-non-voter|step %d %v: %s is not a voter of {%v}", step, m, m.Cand, cfg.Servers))
					}
					if term < termBefore {
						res.viol = append(res.viol, fmt.Sprintf("R2|C06/R2/vote-granted-in-old-term|step %d %v: term %d below current %d", step, m, term, termBefore))
					}
				}
			case *raft.RequestPreVoteResponse:
				rterm = r.Term
				if r.Granted && behind {
					res.viol = append(res.viol, fmt.Sprintf("R2|C06/R2/pre-vote-granted-to-candidate-with-stale-log|step %d %v: candidate last (%d,%d) is behind the voter's (%d,%d)", step, m, li, lt, lastIdx, lastTerm))
				}
				if h.In.R.CurrentTerm() != termBefore || stable != stableBefore {
					res.viol = append(res.viol, fmt.Sprintf("R3|C06/R3/pre-vote-changed-durable-state|step %d %v: term %d -> %d, %d stable writes", step, m, termBefore, h.In.R.CurrentTerm(), stable-stableBefore))
				}
				rterm = 0 // a pre-vote answer echoes the proposed term without adopting it
			case *raft.AppendEntriesResponse:
				rterm = r.Term
			}
			if rterm != 0 {
				if rterm < maxRespTerm {
					res.viol = append(res.viol, fmt.Sprintf("R3|C06/R3/reported-term-decreased|step %d %v: answered term %d after %d", step, m, rterm, maxRespTerm))
				}
				if rterm > maxRespTerm {
					maxRespTerm = rterm
				}
			}
		}
		if crashed {
			h.Reap()
			in = h.Start(5 * time.Second)
			if in.R == nil {
				res.viol = append(res.viol, fmt.Sprintf("R3|C06/R3/newraft-fails-after-crash|step %d: NewRaft after crash: %v %v", step, in.StartErr, in.StartPanic))
				return res
			}
			if got := in.R.CurrentTerm(); got < maxRespTerm {
				res.viol = append(res.viol, fmt.Sprintf("R3|C06/R3/term-after-restart-below-reported-term|step %d: restarted with term %d, had answered with term %d", step, got, maxRespTerm))
			}
		}
	}
	for _, v := range w.Violations() {
		if v.Property == "C06" || v.Property == "C10" {
			res.viol = append(res.viol, v.Rule+"|"+v.Sig+"|"+v.Detail)
		}
	}
	res.stableOps = stable
	h.Reap()
	return res
}

// legit: within one sequence a candidate's log claim is fixed per term (a
// candidate announces one (last index, last term) per election).
func c06Legit(msgs []VMsg) bool {
	claim := map[string]int{}
	for _, m := range msgs {
		if m.Kind != "RV" {
			continue
		}
		k := fmt.Sprintf("%s/%d", m.Cand, m.Term)
		if prev, ok := claim[k]; ok && prev != m.Log {
			return false
		}
		claim[k] = m.Log
	}
	return true
}

func c06Alphabet(full bool) []VMsg {
	var out []VMsg
	terms := []int{0, 1}
	if full {
		terms = []int{-1, 0, 1, 2}
	}
	for _, t := range terms {
		for _, c := range []string{"a", "b", "x", "n"} {
			if !full && (c == "x" || c == "n") && t != 1 {
				continue
			}
			for _, l := range []int{0, 1, 2, 3} {
				if !full && (l == 1 || l == 3) && c != "a" {
					continue
				}
				out = append(out, VMsg{Kind: "RV", Term: t, Cand: c, Log: l})
			}
		}
	}
	out = append(out, VMsg{Kind: "RV", Term: 1, Cand: "a", Log: 0, Transfer: true}, VMsg{Kind: "RV", Term: 1, Cand: "b", Log: 2, Transfer: true})
	for _, t := range []int{0, 1} {
		for _, c := range []string{"a", "b"} {
			for _, l := range []int{0, 2} {
				out = append(out, VMsg{Kind: "PV", Term: t, Cand: c, Log: l})
			}
		}
	}
	for _, t := range []int{0, 1} {
		for _, c := range []string{"a", "b"} {
			out = append(out, VMsg{Kind: "AE", Term: t, Cand: c})
		}
	}
	out = append(out, VMsg{Kind: "TO"})
	return out
}

type c06State struct {
	Cfg      string
	VoteTerm uint64
	VoteCand string
	LogLen   int
	Compact  bool
}

func c06States() []c06State {
	var out []c06State
	for _, cfg := range []string{"member", "nonvoter"} {
		for _, v := range []c06State{{VoteTerm: 0}, {VoteTerm: 3, VoteCand: "a"}, {VoteTerm: 3, VoteCand: "b"}, {VoteTerm: 2, VoteCand: "a"}} {
			for _, ll := range []int{0, 2} {
				out = append(out, c06State{Cfg: cfg, VoteTerm: v.VoteTerm, VoteCand: v.VoteCand, LogLen: ll})
			}
		}
	}
	out = append(out, c06State{Cfg: "demoted", LogLen: 0}, c06State{Cfg: "demoted", LogLen: 2}, c06State{Cfg: "promoted", LogLen: 2})
	out = append(out, c06State{Cfg: "absent", LogLen: 1}, c06State{Cfg: "absent", VoteTerm: 3, VoteCand: "a", LogLen: 1}, c06State{Cfg: "empty"})
	// the server's newest entries live only in its snapshot (log store empty after compaction)
	out = append(out, c06State{Cfg: "member", LogLen: 2, Compact: true}, c06State{Cfg: "member", VoteTerm: 2, VoteCand: "a", LogLen: 2, Compact: true})
	return out
}

func c06Report(r *rep.Report, c C06Case, v string) { c06ReportAs(r, "C06", c, v) }

func c06ReportAs(r *rep.Report, prop string, c C06Case, v string) {
	var rule, sig, detail string
	fmt.Sscanf(v, "%s", &rule)
	parts := splitN(v, "|", 3)
	rule, sig, detail = parts[0], parts[1], parts[2]
	path := fmt.Sprintf("%s/%s-%s-%d.json", rep.ReplayDir(), prop, sanitize(sig), os.Getpid())
	b, _ := json.MarshalIndent(map[string]any{"property": prop, "engine": "solo", "test": "TestC06Replay", "case": c,
		"verdict": map[string]string{"rule": rule, "signature": sig, "detail": detail}}, "", " ")
	_ = os.WriteFile(path, b, 0o644)
	r.Violate(prop, rule, sig, c.String()+": "+detail, path)
}

func TestC06Enumerate(t *testing.T) {
	r := rep.New("C06", "enumerate")
	r.Extra("test", "TestC06Enumerate")
	defer r.Flush()
	r.Exhaustive = true
	depth := rep.Scale(2, 3)
	alpha := c06Alphabet(rep.Thorough())
	states := c06States()
	r.Extra("alphabet", len(alpha))
	r.Extra("states", len(states))
	r.Extra("depth", depth)
	shard, shards := rep.Shard(), rep.Shards()
	n := 0
	excluded := 0
	var run func(msgs []VMsg) bool
	run = func(msgs []VMsg) bool {
		if len(msgs) > 0 && c06Legit(msgs) {
			for _, st := range states {
				n++
				if n%shards != shard {
					continue
				}
				base := C06Case{CfgKind: st.Cfg, Term: 3, VoteTerm: st.VoteTerm, VoteCand: st.VoteCand, LogLen: st.LogLen, Compact: st.Compact, Msgs: append([]VMsg(nil), msgs...)}
				var br c06Result
				sim.Bubble(t, func() { br = c06Run(base) })
				r.CaseDistinct(false, "fault-free")
				if len(br.viol) > 0 {
					c06Report(r, base, br.viol[0])
					return false
				}
				for k := 1; k <= br.stableOps; k++ {
					for _, mode := range []sim.Decision{sim.DoError, sim.DoCrashBefore, sim.DoCrashAfter} {
						c := base
						c.FaultAt, c.Mode = k, int(mode)
						var fr c06Result
						sim.Bubble(t, func() { fr = c06Run(c) })
						r.CaseDistinct(fr.faulted, [...]string{"", "store-error", "crash-before-write", "crash-after-write"}[mode])
						if fr.grants > 0 {
							r.Class("grant-in-faulted-run", 1)
						}
						if len(fr.viol) > 0 {
							c06Report(r, c, fr.viol[0])
							return false
						}
						if r.WantSample() && fr.grants > 0 && len(msgs) > 1 {
							r.Sample(c.String())
						}
					}
				}
				for k := 1; k <= br.voteReads; k++ {
					c := base
					c.ReadAt = k
					var fr c06Result
					sim.Bubble(t, func() { fr = c06Run(c) })
					r.CaseDistinct(fr.faulted, "vote-record-read-error")
					if len(fr.viol) > 0 {
						c06Report(r, c, fr.viol[0])
						return false
					}
				}
			}
		} else if len(msgs) > 0 {
			excluded++
		}
		if len(msgs) < depth {
			for _, m := range alpha {
				if !run(append(msgs, m)) {
					return false
				}
			}
		}
		return true
	}
	if !run(nil) {
		t.Errorf("C06 violation (see report)")
	}
	r.Extra("sequences_excluded_as_illegitimate", excluded)
}

func genVMsg(t *rapid.T) VMsg {
	m := VMsg{Kind: rapid.SampledFrom([]string{"RV", "RV", "RV", "RV", "PV", "AE", "TO"}).Draw(t, "kind")}
	if m.Kind == "TO" {
		return m
	}
	m.Term = rapid.IntRange(-1, 2).Draw(t, "term")
	m.Cand = rapid.SampledFrom([]string{"a", "a", "b", "b", "x", "n"}).Draw(t, "cand")
	m.Log = rapid.IntRange(0, 3).Draw(t, "log")
	if m.Kind == "RV" {
		m.Transfer = rapid.IntRange(0, 5).Draw(t, "transfer") == 0
	}
	if m.Kind == "AE" && (m.Cand == "x" || m.Cand == "n") {
		m.Cand = "a"
	}
	return m
}

func TestC06Random(t *testing.T) { c06Random(t, "C06", "TestC06Random", nil) }

// TestC01Votes / TestC03Votes run the same generated vote scenarios and judge
// the rule each of those properties rests on: one grant per term (C01), and no
// grant to a candidate whose log is behind the voter's (C03: leader completeness).
func TestC01Votes(t *testing.T) {
	c06Random(t, "C01", "TestC01Votes", map[string]string{"C06/R1/two-candidates-granted-in-one-term": "R3|C01/R3/two-candidates-granted-in-one-term"})
}
func TestC14PreVotes(t *testing.T) {
	c06Random(t, "C14", "TestC14PreVotes", map[string]string{
		"C06/R2/pre-vote-granted-to-candidate-with-stale-log": "R2|C14/R2/pre-vote-granted-to-candidate-with-stale-log",
		"C06/R3/pre-vote-changed-durable-state":               "R1|C14/R1/pre-vote-changed-durable-state"})
}
func TestC03Votes(t *testing.T) {
	c06Random(t, "C03", "TestC03Votes", map[string]string{"C06/R2/vote-granted-to-candidate-with-stale-log": "R1|C03/R1/vote-granted-to-candidate-with-stale-log"})
}

// c06Random: remap == nil keeps every rule under C06; otherwise only the listed
// signatures count, renamed to the rule/signature given.
func c06Random(t *testing.T, prop, test string, remap map[string]string) {
	r := rep.New(prop, "votes")
	r.Extra("test", test)
	defer r.Flush()
	states := c06States()
	rapid.Check(t, func(rt *rapid.T) {
		st := states[rapid.IntRange(0, len(states)-1).Draw(rt, "state")]
		msgs := rapid.SliceOfN(rapid.Custom(genVMsg), 1, 8).Draw(rt, "msgs")
		// keep the term arithmetic monotone enough to stay interesting: terms are relative to the seed
		if !c06Legit(msgs) {
			rt.Skip("illegitimate: one candidate, one term, two log claims")
		}
		c := C06Case{CfgKind: st.Cfg, Term: 3, VoteTerm: st.VoteTerm, VoteCand: st.VoteCand, LogLen: st.LogLen, Compact: st.Compact, Msgs: msgs,
			FaultAt: rapid.IntRange(0, 8).Draw(rt, "faultAt"), Mode: rapid.IntRange(1, 3).Draw(rt, "mode")}
		if rapid.IntRange(0, 3).Draw(rt, "readFault") == 0 {
			c.FaultAt, c.ReadAt = 0, rapid.IntRange(1, 8).Draw(rt, "readAt")
		}
		var res c06Result
		sim.Bubble(t, func() { res = c06Run(c) })
		r.Case(res.faulted, rep.Hash(c.String()), map[bool]string{true: "faulted", false: "fault-free"}[res.faulted])
		if res.faulted && res.grants > 0 && len(msgs) <= 4 {
			r.Sample(c.String())
		}
		for _, v := range res.viol {
			if remap != nil {
				parts := splitN(v, "|", 3)
				to, ok := remap[parts[1]]
				if !ok {
					continue
				}
				v = to + "|" + parts[2]
			}
			c06ReportAs(r, prop, c, v)
			r.Freeze()
			rt.Fatalf("%s", v)
		}
	})
}

func TestC06Replay(t *testing.T) {
	path := os.Getenv("VERIF_REPLAY")
	if path == "" {
		t.Skip("no VERIF_REPLAY")
	}
	b, err := os.ReadFile(path)
	if err != nil {
		t.Fatal(err)
	}
	var f struct{ Case C06Case }
	if err := json.Unmarshal(b, &f); err != nil {
		t.Fatal(err)
	}
	var res c06Result
	sim.Bubble(t, func() { res = c06Run(f.Case) })
	fmt.Printf("REPLAY-INFO grants=%d own-vote-requests=%d stable-writes=%d vote-record-reads=%d fault-hit=%v\n", res.grants, res.selfVotes, res.stableOps, res.voteReads, res.faulted)
	if len(res.viol) > 0 {
		fmt.Printf("REPLAY-VIOLATION property=C06 %s\n", res.viol[0])
		return
	}
	fmt.Println("REPLAY-OK property=C06 (no violation on this tree)")
}

var _ = synctest.Wait
