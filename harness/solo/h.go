// Package solo is engine E-solo: one real raft.Raft server inside a synctest
// bubble; the harness plays every other member through the server's transport.
// After each injected event the bubble is run to quiescence, so a case is a
// pure function of its inputs (deterministic, shrinkable, replayable).
package solo

import (
	"fmt"
	"testing/synctest"
	"time"

	"github.com/hashicorp/raft"

	"verif/harness/sim"
)

const Self = "r"

// Entry is a log entry of a scenario: term and a payload id (0 = no-op).
type Entry struct {
	Term    uint64   `json:"term"`
	Payload uint64   `json:"payload,omitempty"`
	Config  []string `json:"config,omitempty"` // non-nil: configuration entry (ids; suffix ":n" = non-voter)
}

// Seed is the durable state the real server starts from.
type Seed struct {
	Term     uint64    `json:"term"`
	VoteTerm uint64    `json:"vote_term,omitempty"`
	VoteCand string    `json:"vote_cand,omitempty"`
	Log      []Entry   `json:"log"`             // index i+First
	First    uint64    `json:"first,omitempty"` // index of Log[0] (default 1)
	Flavour  int       `json:"flavour,omitempty"`
	Commit   uint64    `json:"commit,omitempty"` // persisted commit index (commit-tracking flavour)
	Snap     *SnapSeed `json:"snap,omitempty"`
	// Compacted holds the history that Snap covers when Log is empty (used by
	// the references only; not written to the disk)
	Compacted []Entry `json:"compacted,omitempty"`
}

type SnapSeed struct {
	Index, Term uint64
	Config      []string
	ConfigIndex uint64
	State       sim.FSMState
	Bad         bool
}

func ParseConfig(ids []string) raft.Configuration {
	var c raft.Configuration
	for _, s := range ids {
		suf := raft.Voter
		id := s
		if len(s) > 2 && s[len(s)-2:] == ":n" {
			suf, id = raft.Nonvoter, s[:len(s)-2]
		}
		c.Servers = append(c.Servers, raft.Server{Suffrage: suf, ID: raft.ServerID(id), Address: raft.ServerAddress("addr-" + id)})
	}
	return c
}

func (e Entry) Log(index uint64) *raft.Log {
	l := &raft.Log{Index: index, Term: e.Term}
	switch {
	case e.Config != nil:
		l.Type = raft.LogConfiguration
		l.Data = raft.EncodeConfiguration(ParseConfig(e.Config))
	case e.Payload != 0:
		l.Type = raft.LogCommand
		l.Data = sim.EncodePayload(e.Payload, 0)
	default:
		l.Type = raft.LogNoop
	}
	return l
}

// H is one solo scenario.
type H struct {
	W    *sim.World
	In   *sim.Instance
	Opts sim.NodeOpts
	Conf func(c *raft.Config)
}

func New(seed Seed, peers []string) *H {
	w := sim.NewWorld()
	w.O.SoloMode, w.O.NoMajorityCheck = true, true
	w.KeepEvents = false
	srv := w.AddServer(Self, sim.Flavour(seed.Flavour))
	for _, p := range peers {
		w.AddServer(p, sim.Plain)
		w.Net.Scripted[p] = true
	}
	d := srv.Disk
	if seed.Term > 0 {
		d.KVInt["CurrentTerm"] = seed.Term
		srv.MaxTermSeen = seed.Term
	}
	if seed.VoteTerm > 0 {
		d.KVInt["LastVoteTerm"] = seed.VoteTerm
		d.KV["LastVoteCand"] = []byte("addr-" + seed.VoteCand)
	}
	first := seed.First
	if first == 0 {
		first = 1
	}
	for i, e := range seed.Log {
		d.Logs[first+uint64(i)] = e.Log(first + uint64(i))
	}
	d.Commit = seed.Commit
	if s := seed.Snap; s != nil {
		d.Snaps = append(d.Snaps, &sim.Snap{Meta: raft.SnapshotMeta{Version: 1, ID: fmt.Sprintf("%d-%d-seed", s.Term, s.Index), Index: s.Index, Term: s.Term,
			Configuration: ParseConfig(s.Config), ConfigurationIndex: s.ConfigIndex, Size: int64(len(sim.EncodeState(s.State)))}, Data: sim.EncodeState(s.State), Bad: s.Bad})
	}
	return &H{W: w}
}

// Start boots (or reboots) the real server. Timers are an hour long so that
// nothing happens unless the harness makes it happen.
func (h *H) Start(bound time.Duration) *sim.Instance {
	o := h.Opts
	user := h.Conf
	o.Conf = func(c *raft.Config) {
		c.HeartbeatTimeout, c.ElectionTimeout, c.LeaderLeaseTimeout = time.Hour, time.Hour, time.Hour
		c.CommitTimeout = time.Hour
		if user != nil {
			user(c)
		}
	}
	h.In = h.W.Start(Self, o, bound)
	synctest.Wait()
	return h.In
}

// RPC injects one request from a model peer and waits for quiescence.
// answered=false: the server did not answer (it crashed on the way).
func (h *H) RPC(kind sim.MsgKind, from string, req any, data []byte) (resp any, err error, answered bool) {
	ch := h.W.Net.Inject(h.In, kind, from, req, data)
	synctest.Wait()
	select {
	case r := <-ch:
		return r.Response, r.Error, true
	default:
		return nil, nil, false
	}
}

// Reap shuts the current incarnation down.
func (h *H) Reap() {
	if h.In == nil || h.In.R == nil {
		return
	}
	done := make(chan struct{})
	in := h.In
	go func() { in.Reap(); close(done) }()
	for i := 0; i < 20000; i++ {
		synctest.Wait()
		h.failPending()
		select {
		case <-done:
			return
		default:
		}
		time.Sleep(time.Millisecond)
	}
}

// failPending answers every outgoing request of the real server with a
// connection error (used while shutting down).
func (h *H) failPending() {
	for _, m := range h.W.Net.TakeScripted() {
		h.W.Net.Answer(m, nil, sim.ErrSimRefused)
	}
}

func Header(id string) raft.RPCHeader {
	return raft.RPCHeader{ProtocolVersion: 3, ID: []byte(id), Addr: []byte("addr-" + id)}
}

// Disk returns the durable truth of the real server.
func (h *H) Disk() *sim.Disk { return h.W.Servers[Self].Disk }
