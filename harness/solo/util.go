package solo

import (
	"regexp"
	"strings"
)

func splitN(s, sep string, n int) []string {
	p := strings.SplitN(s, sep, n)
	for len(p) < n {
		p = append(p, "")
	}
	return p
}

func sanitize(s string) string {
	return regexp.MustCompile(`[^A-Za-z0-9]+`).ReplaceAllString(s, "_")
}
