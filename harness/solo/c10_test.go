package solo

// C10 — crash recovery: fault enumeration over generated follower streams.
// C12 (solo part) — after the restart a model leader running the real
// replication algorithm must bring the server to its committed state.

import (
	"encoding/json"
	"fmt"
	"os"
	"strings"
	"testing"
	"testing/synctest"
	"time"

	"github.com/hashicorp/raft"
	"pgregory.net/rapid"

	"verif/harness/rep"
	"verif/harness/sim"
)

// Step of a follower stream.
type C10Step struct {
	Op string `json:"op"` // append | commit | snapshot | install | switch | vote
	N  int    `json:"n,omitempty"`
}

type C10Case struct {
	Flavour   int       `json:"flavour"` // 0 plain, 1 monotonic, 2 commit tracking + RestoreCommittedLogs, 3 the same with a staged commit index visible at once
	MaxAppend int       `json:"max_append"`
	Trailing  uint64    `json:"trailing"`
	Steps     []C10Step `json:"steps"`
	CrashAt   int       `json:"crash_at"`    // ordinal of the durable operation (0 = no crash)
	After     bool      `json:"crash_after"` // crash after (true) or before (false) the operation takes effect
	BadSnap   bool      `json:"newest_snapshot_unreadable"`
	Preload   int       `json:"preload,omitempty"` // committed commands seeded on disk before the first start (RCL replay depth)
}

func (c C10Case) String() string {
	return fmt.Sprintf("flavour=%d maxappend=%d trailing=%d preload=%d steps=%v crash@%d after=%v badsnap=%v", c.Flavour, c.MaxAppend, c.Trailing, c.Preload, c.Steps, c.CrashAt, c.After, c.BadSnap)
}

// model leader
type mleader struct {
	id     string
	term   uint64
	log    []Entry // index i+1
	commit int
	snap   int // leader's own snapshot index (entries <= snap not served from the log)
}

func (m *mleader) entry(i int) *raft.Log { return m.log[i-1].Log(uint64(i)) }

func (m *mleader) foldTo(n int) sim.FSMState {
	var st sim.FSMState
	for i := 1; i <= n && i <= len(m.log); i++ {
		if e := m.log[i-1]; e.Payload != 0 {
			st.Fold(uint64(i), e.Term, e.Payload)
		}
	}
	return st
}

type c10Result struct {
	viol     []string
	durable  int
	crashed  bool
	site     string
	restored bool
}

func c10Run(c C10Case) c10Result {
	var res c10Result
	cfgIDs := []string{"r", "a", "b"}
	seed := Seed{Term: 1, Flavour: c.Flavour, Log: []Entry{{Term: 1, Config: cfgIDs}}}
	L := &mleader{id: "a", term: 2, log: []Entry{{Term: 1, Config: cfgIDs}}}
	nextPayload := uint64(1)
	for i := 0; i < c.Preload; i++ {
		e := Entry{Term: 2, Payload: nextPayload}
		nextPayload++
		seed.Log = append(seed.Log, e)
		L.log = append(L.log, e)
	}
	if c.Preload > 0 {
		seed.Term = 2
		seed.Commit = uint64(len(seed.Log))
		L.commit = len(L.log)
	}
	h := New(seed, []string{"a", "b"})
	h.Conf = func(cf *raft.Config) {
		cf.MaxAppendEntries = c.MaxAppend
		cf.TrailingLogs = c.Trailing
		cf.RestoreCommittedLogs = c.Flavour >= 2
	}
	h.Opts.Batching = c.MaxAppend%2 == 0
	w := h.W
	n := 0
	w.FaultPlan = func(op *sim.DiskOp) sim.Decision {
		if res.crashed {
			return sim.DoOK
		}
		n++
		if c.CrashAt != 0 && n == c.CrashAt {
			res.crashed, res.site = true, string(op.Kind)+"@"+op.Site
			if c.After {
				return sim.DoCrashAfter
			}
			return sim.DoCrashBefore
		}
		return sim.DoOK
	}
	start := func(what string) bool {
		in := h.Start(20 * time.Second)
		switch {
		case in.StartHung:
			res.viol = append(res.viol, fmt.Sprintf("R3|C10/R3/newraft-does-not-return|%s: NewRaft did not return within 20 virtual seconds; disk: %s", what, h.Disk().LogString()))
		case in.StartPanic != nil:
			res.viol = append(res.viol, fmt.Sprintf("R3|C10/R3/newraft-panics|%s: %v; disk: %s", what, in.StartPanic, h.Disk().LogString()))
		case in.R == nil:
			res.viol = append(res.viol, fmt.Sprintf("R3|C10/R3/newraft-fails|%s: %v; disk: %s", what, in.StartErr, h.Disk().LogString()))
		}
		return in.R != nil
	}
	if !start("first start") {
		return res
	}
	// send one AppendEntries from the leader: entries (prev, end]
	ae := func(prev, end int) (*raft.AppendEntriesResponse, bool) {
		req := &raft.AppendEntriesRequest{RPCHeader: Header(L.id), Term: L.term, Leader: []byte("addr-" + L.id), PrevLogEntry: uint64(prev), LeaderCommitIndex: uint64(L.commit)}
		if prev > 0 {
			req.PrevLogTerm = L.log[prev-1].Term
		}
		for i := prev + 1; i <= end; i++ {
			req.Entries = append(req.Entries, L.entry(i))
		}
		resp, err, ok := h.RPC(sim.KAppend, L.id, req, nil)
		if !ok || err != nil || h.In.Dead() {
			return nil, false
		}
		return resp.(*raft.AppendEntriesResponse), true
	}
	install := func(idx int) (*raft.InstallSnapshotResponse, bool) {
		st := L.foldTo(idx)
		data := sim.EncodeState(st)
		req := &raft.InstallSnapshotRequest{RPCHeader: Header(L.id), SnapshotVersion: 1, Term: L.term, Leader: []byte("addr-" + L.id), LastLogIndex: uint64(idx), LastLogTerm: L.log[idx-1].Term,
			Configuration: raft.EncodeConfiguration(ParseConfig(cfgIDs)), ConfigurationIndex: 1, Size: int64(len(data))}
		resp, err, ok := h.RPC(sim.KSnapshot, L.id, req, data)
		if !ok || err != nil || h.In.Dead() {
			return nil, false
		}
		return resp.(*raft.InstallSnapshotResponse), true
	}
	// catchUp runs the real replication algorithm (nextIndex back-tracking with
	// the LastLog hint, snapshot fall-back) until the follower holds the
	// leader's log. Returns false on a crash.
	next := len(L.log) + 1
	catchUp := func(limit int) (bool, string) {
		for it := 0; it < limit; it++ {
			if next-1 < L.snap {
				r, ok := install(L.snap)
				if !ok {
					return false, ""
				}
				if r.Success {
					next = L.snap + 1
				}
				continue
			}
			end := next - 1 + c.MaxAppend
			if end > len(L.log) {
				end = len(L.log)
			}
			r, ok := ae(next-1, end)
			if !ok {
				return false, ""
			}
			if r.Success {
				next = end + 1
				if end == len(L.log) {
					return true, ""
				}
			} else {
				nn := next - 1
				if int(r.LastLog)+1 < nn {
					nn = int(r.LastLog) + 1
				}
				if nn < 1 {
					nn = 1
				}
				next = nn
			}
		}
		return true, fmt.Sprintf("no convergence after %d exchanges (nextIndex=%d, leader log %d entries, leader snapshot %d)", limit, next, len(L.log), L.snap)
	}
	alive := true
	for si, s := range c.Steps {
		if !alive {
			break
		}
		switch s.Op {
		case "append":
			for k := 0; k < s.N; k++ {
				L.log = append(L.log, Entry{Term: L.term, Payload: nextPayload})
				nextPayload++
			}
			ok, stuck := catchUp(4*len(L.log) + 20)
			alive = ok
			if stuck != "" {
				res.viol = append(res.viol, "R3|C12/R3/solo-catch-up-makes-no-progress|step "+fmt.Sprint(si)+": "+stuck)
				alive = false
			}
		case "commit":
			L.commit = len(L.log)
			_, alive = ae(len(L.log), len(L.log))
		case "snapshot":
			f := h.In.R.Snapshot()
			done := make(chan error, 1)
			go func() { done <- f.Error() }()
			synctest.Wait()
			alive = !h.In.Dead()
		case "install":
			if len(L.log) > 1 {
				L.commit = len(L.log) // the leader has everything committed, snapshots and compacts
				L.snap = L.commit
				_, alive = install(L.snap)
				if alive && next <= L.snap {
					next = L.snap + 1
				}
			}
		case "switch", "switchsilent":
			// a new leader: keeps the committed prefix (+ optionally some of the
			// uncommitted tail), writes its own entries
			keep := L.commit
			if extra := len(L.log) - L.commit; extra > 0 && s.N > 0 {
				keep += s.N % (extra + 1)
			}
			if keep < 1 {
				keep = 1 // every server holds the bootstrap configuration entry
			}
			nl := &mleader{id: map[string]string{"a": "b", "b": "a"}[L.id], term: L.term + 1, log: append([]Entry(nil), L.log[:keep]...), commit: L.commit, snap: L.snap}
			if nl.snap > keep {
				nl.snap = 0
			}
			L = nl
			L.log = append(L.log, Entry{Term: L.term}) // the new leader's no-op
			if s.N >= 4 {
				// it has already committed its own entries with the other
				// follower before it reaches this server
				for k := 0; k < s.N-4; k++ {
					L.log = append(L.log, Entry{Term: L.term, Payload: nextPayload})
					nextPayload++
				}
				L.commit = len(L.log)
			}
			next = len(L.log) + 1
			if s.Op == "switchsilent" {
				break // this server hears nothing of the new leader yet (it is cut off): its old tail stays
			}
			ok, stuck := catchUp(4*len(L.log) + 20)
			alive = ok
			if stuck != "" {
				res.viol = append(res.viol, "R3|C12/R3/solo-catch-up-makes-no-progress|step "+fmt.Sprint(si)+": "+stuck)
				alive = false
			}
		case "vote":
			req := &raft.RequestVoteRequest{RPCHeader: Header("b"), Term: L.term + 1, Candidate: []byte("addr-b"), LastLogIndex: uint64(len(L.log)), LastLogTerm: L.log[len(L.log)-1].Term}
			L.term += 2 // the leader comes back with a newer term afterwards
			_, _, ok := h.RPC(sim.KVote, "b", req, nil)
			alive = ok && !h.In.Dead()
		}
		if len(res.viol) > 0 {
			break
		}
	}
	res.durable = n
	if h.In.Dead() && len(res.viol) == 0 {
		// crashed: restart from the image and judge the recovery
		h.Reap()
		d := h.Disk()
		h.W.Mu.Lock()
		if c.BadSnap {
			// an unreadable newest snapshot: only meaningful while the log still
			// connects to the older one (after compaction past it, losing the
			// newest snapshot is not a crash effect but data loss)
			if sn := d.NewestSnap(); sn != nil && len(d.Snaps) > 1 {
				var older *sim.Snap
				for _, x := range d.Snaps {
					if x != sn && (older == nil || x.Meta.Index > older.Meta.Index) {
						older = x
					}
				}
				ok := older != nil
				for i := older.Meta.Index + 1; ok && i <= sn.Meta.Index; i++ {
					if _, has := d.Logs[i]; !has {
						ok = false
					}
				}
				if ok {
					sn.Bad = true
				}
			}
		}
		img := d.Clone()
		h.W.Mu.Unlock()
		if start("restart after crash at " + res.site) {
			res.restored = true
			// R2: the FSM of the new incarnation
			var want sim.FSMState
			var from uint64
			if sn := img.NewestUsableSnap(); sn != nil {
				_ = json.Unmarshal(sn.Data, &want)
				from = sn.Meta.Index
			}
			if c.Flavour >= 2 {
				// what the durable commit index vouches for must be what the
				// leaders really committed (the model leader's log is the truth)
				for i := uint64(1); i <= img.Commit && int(i) <= len(L.log); i++ {
					want := L.entry(int(i))
					if l, ok := img.Logs[i]; ok && int(i) <= L.commit && (l.Term != want.Term || l.Type != want.Type || string(l.Data) != string(want.Data)) {
						res.viol = append(res.viol, fmt.Sprintf("R2|C10/R2/persisted-commit-index-covers-an-uncommitted-entry|crash at %s: durable commit index %d covers entry %d/%d which is not the committed entry (%d) there; image: %s",
							res.site, img.Commit, i, l.Term, L.log[i-1].Term, img.LogString()))
						break
					}
				}
				upto := img.Commit
				if l := img.Last(); upto > l {
					upto = l
				}
				for i := from + 1; i <= upto; i++ {
					l, ok := img.Logs[i]
					if !ok {
						res.viol = append(res.viol, fmt.Sprintf("R2|C10/R2/hole-below-persisted-commit|image lacks entry %d below its persisted commit index %d: %s", i, upto, img.LogString()))
						break
					}
					if l.Type == raft.LogCommand {
						want.Fold(i, l.Term, sim.DecodePayload(l.Data))
					}
				}
			}
			got := h.In.FSM.GetState()
			if got.Hash != want.Hash || got.Count != want.Count {
				res.viol = append(res.viol, fmt.Sprintf("R2|C10/R2/fsm-after-restart-differs-from-durable-state|crash at %s: FSM holds %d commands (hash %x, last %d), durable snapshot+committed log give %d commands (hash %x); image: %s commit=%d",
					res.site, got.Count, got.Hash, got.LastIdx, want.Count, want.Hash, img.LogString(), img.Commit))
			}
			// R4 / C12: the leader (with everything committed) catches it up
			if len(res.viol) == 0 {
				L.commit = len(L.log)
				next = len(L.log) + 1
				ok, stuck := catchUp(6*len(L.log) + 40)
				if stuck != "" {
					res.viol = append(res.viol, "R3|C12/R3/solo-catch-up-makes-no-progress|after restart from crash at "+res.site+": "+stuck+"; disk: "+h.Disk().LogString())
				} else if ok {
					_, _ = ae(len(L.log), len(L.log)) // deliver the final commit index
					wantF := L.foldTo(len(L.log))
					gotF := h.In.FSM.GetState()
					// C04: the server answered success for the leader's last entry, so
					// every entry it still retains is the leader's entry at that index
					h.W.Mu.Lock()
					for idx, l := range h.Disk().Logs {
						if int(idx) > len(L.log) {
							continue
						}
						if want := L.entry(int(idx)); l.Term != want.Term || l.Type != want.Type || string(l.Data) != string(want.Data) {
							res.viol = append(res.viol, fmt.Sprintf("R1|C04/R1/log-differs-from-leader-after-successful-append|crash at %s: after the catch-up entry %d is %d/%s, the leader holds %d/%s; disk: %s", res.site, idx, l.Term, l.Type, want.Term, want.Type, h.Disk().LogString()))
							break
						}
					}
					h.W.Mu.Unlock()
					if gotF.Hash != wantF.Hash || gotF.Count != wantF.Count {
						res.viol = append(res.viol, fmt.Sprintf("R4|C10/R4/state-after-catch-up-differs-from-leader|crash at %s: FSM %d commands hash %x, leader's committed history %d commands hash %x; disk: %s", res.site, gotF.Count, gotF.Hash, wantF.Count, wantF.Hash, h.Disk().LogString()))
					}
				}
			}
		}
	}
	for _, v := range w.Violations() {
		res.viol = append(res.viol, v.Rule+"|"+v.Sig+"|"+v.Detail)
	}
	h.Reap()
	return res
}

func genC10(t *rapid.T) C10Case {
	c := C10Case{Flavour: rapid.IntRange(0, 3).Draw(t, "flavour"), MaxAppend: rapid.SampledFrom([]int{1, 2, 3, 8}).Draw(t, "maxAppend"),
		Trailing: rapid.SampledFrom([]uint64{0, 1, 2, 5, 10240}).Draw(t, "trailing")}
	n := rapid.IntRange(2, 10).Draw(t, "steps")
	ops := []string{"append", "append", "append", "commit", "commit", "snapshot", "snapshot", "install", "install", "switch", "switch", "switchsilent", "vote"}
	for i := 0; i < n; i++ {
		s := C10Step{Op: rapid.SampledFrom(ops).Draw(t, "op")}
		if s.Op == "append" {
			s.N = rapid.IntRange(1, 6).Draw(t, "n")
		}
		if s.Op == "switch" || s.Op == "switchsilent" {
			s.N = rapid.IntRange(0, 7).Draw(t, "keep") // >= 4: the new leader has committed its entries already
		}
		c.Steps = append(c.Steps, s)
	}
	c.BadSnap = rapid.IntRange(0, 5).Draw(t, "badSnap") == 0
	return c
}

func c10Report(r *rep.Report, c C10Case, v string) {
	parts := splitN(v, "|", 3)
	prop := "C10"
	if len(parts[1]) > 3 && parts[1][0] == 'C' {
		prop = parts[1][:3]
	}
	path := fmt.Sprintf("%s/%s-%s-%d.json", rep.ReplayDir(), prop, sanitize(parts[1]), os.Getpid())
	b, _ := json.MarshalIndent(map[string]any{"property": prop, "engine": "solo", "test": "TestC10Replay", "case": c,
		"verdict": map[string]string{"rule": parts[0], "signature": parts[1], "detail": parts[2]}}, "", " ")
	_ = os.WriteFile(path, b, 0o644)
	r.Violate(prop, parts[0], parts[1], c.String()+": "+parts[2], path)
}

// TestC10Crash: for every generated stream, every durable operation is a
// crash point (before and after).
func TestC10Crash(t *testing.T) { c10Crash(t, "C10", "TestC10Crash", "") }

// TestC04Crash: the same crash enumeration judged by the log-matching rule only
// (what a restarted server answers "success" to leaves its log equal to the leader's).
func TestC04Crash(t *testing.T) { c10Crash(t, "C04", "TestC04Crash", "C04/") }

// c10Crash: only == "" keeps every rule; otherwise only signatures with that prefix count.
func c10Crash(t *testing.T, prop, test, only string) {
	r := rep.New(prop, "crash")
	r.Extra("test", test)
	defer r.Flush()
	first := func(vs []string) string {
		for _, v := range vs {
			if only == "" || strings.HasPrefix(splitN(v, "|", 3)[1], only) {
				return v
			}
		}
		return ""
	}
	points := 0
	rapid.Check(t, func(rt *rapid.T) {
		if r.Frozen() {
			return
		}
		c := genC10(rt)
		var base c10Result
		sim.Bubble(t, func() { base = c10Run(c) })
		r.Case(false, rep.Hash(c.String()), "fault-free")
		if v := first(base.viol); v != "" {
			c10Report(r, c, v)
			r.Freeze()
			rt.Fatalf("%s", v)
		}
		for k := 1; k <= base.durable; k++ {
			for _, after := range []bool{false, true} {
				cc := c
				cc.CrashAt, cc.After = k, after
				var res c10Result
				sim.Bubble(t, func() { res = c10Run(cc) })
				points++
				r.Case(res.restored, rep.Hash(cc.Flavour, res.site, after, len(cc.Steps), points), "crash@"+res.site)
				if res.restored && r.WantSample() && (res.site == "SnapClose@installSnapshot" || res.site == "DeleteRange@appendEntries") {
					r.Sample(cc.String() + " -> crash at " + res.site)
				}
				if v := first(res.viol); v != "" {
					c10Report(r, cc, v)
					r.Freeze()
					rt.Fatalf("%s", v)
				}
			}
		}
	})
	r.Extra("crash_points_executed", points)
}

// TestC10Replay: restart with RestoreCommittedLogs over a long committed log
// (more replay batches than the FSM queue holds), with and without snapshot.
func TestC10RCLDepth(t *testing.T) {
	r := rep.New("C10", "rcldepth")
	r.Extra("test", "TestC10RCLDepth")
	defer r.Flush()
	rapid.Check(t, func(rt *rapid.T) {
		if r.Frozen() {
			return
		}
		c := C10Case{Flavour: 2, MaxAppend: rapid.SampledFrom([]int{1, 1, 2, 64}).Draw(rt, "maxAppend"), Trailing: 10240,
			Preload: rapid.SampledFrom([]int{0, 5, 100, 127, 128, 129, 130, 200, 300}).Draw(rt, "preload")}
		if rapid.Bool().Draw(rt, "withSnapshot") {
			c.Steps = append(c.Steps, C10Step{Op: "append", N: 1}, C10Step{Op: "commit"}, C10Step{Op: "snapshot"})
		}
		c.Steps = append(c.Steps, C10Step{Op: "append", N: rapid.IntRange(1, 3).Draw(rt, "n")}, C10Step{Op: "commit"}, C10Step{Op: "append", N: 1})
		// crash at the very last durable operation: run once to count
		var base c10Result
		sim.Bubble(t, func() { base = c10Run(c) })
		if len(base.viol) > 0 {
			c10Report(r, c, base.viol[0])
			r.Freeze()
			rt.Fatalf("%s", base.viol[0])
		}
		c.CrashAt, c.After = base.durable, true
		var res c10Result
		sim.Bubble(t, func() { res = c10Run(c) })
		batches := (c.Preload + c.MaxAppend - 1) / c.MaxAppend
		r.Case(batches > 128, rep.Hash(c.String()), fmt.Sprintf("replay-batches>128=%v", batches > 128))
		if batches > 128 {
			r.Sample(c.String())
		}
		if len(res.viol) > 0 {
			c10Report(r, c, res.viol[0])
			r.Freeze()
			rt.Fatalf("%s", res.viol[0])
		}
	})
}

func TestC10Replay(t *testing.T) {
	path := os.Getenv("VERIF_REPLAY")
	if path == "" {
		t.Skip("no VERIF_REPLAY")
	}
	b, err := os.ReadFile(path)
	if err != nil {
		t.Fatal(err)
	}
	var f struct {
		Property string
		Case     C10Case
	}
	if err := json.Unmarshal(b, &f); err != nil {
		t.Fatal(err)
	}
	var res c10Result
	sim.Bubble(t, func() { res = c10Run(f.Case) })
	if len(res.viol) > 0 {
		fmt.Printf("REPLAY-VIOLATION property=%s %s\n", f.Property, res.viol[0])
		return
	}
	fmt.Printf("REPLAY-OK property=%s (no violation on this tree)\n", f.Property)
}
