package sim

import (
	"fmt"
	"strings"
	"syscall"
	"testing"
	"testing/synctest"
	"time"
)

// Bubble runs f inside a synctest bubble and converts the bubble's deadlock
// panic (goroutines still blocked when f returned) into a return value.
func Bubble(t *testing.T, f func()) (leftover string) {
	defer func() {
		if p := recover(); p != nil {
			s := fmt.Sprint(p)
			if strings.Contains(s, "blocked goroutines remain") || strings.Contains(s, "deadlock") {
				leftover = s
				return
			}
			panic(p)
		}
	}()
	synctest.Test(t, func(*testing.T) { f() })
	return ""
}

// Settle runs the network until nothing more can be delivered at this virtual
// instant. Returns the number of deliveries.
func (w *World) Settle() int {
	total := 0
	for i := 0; i < 64; i++ {
		synctest.Wait()
		if w.Round != nil {
			w.Round() // every server is blocked: a consistent instant between two delivery rounds
		}
		n := w.Net.Step()
		if n == 0 {
			return total
		}
		total += n
	}
	return total
}

// Advance moves virtual time forward by d in 1 ms steps, settling the network
// at each step. each (optional) runs at every quiescent point.
func (w *World) Advance(d time.Duration, each func()) {
	steps := int(d / time.Millisecond)
	for i := 0; i < steps; i++ {
		if w.Stop != nil && w.Stop() {
			return
		}
		w.Settle()
		if each != nil {
			each()
		}
		time.Sleep(time.Millisecond)
	}
	w.Settle()
}

// WallNow returns real (not bubble) time in nanoseconds.
func WallNow() int64 {
	var tv syscall.Timeval
	_ = syscall.Gettimeofday(&tv)
	return int64(tv.Sec)*1e9 + int64(tv.Usec)*1e3
}
