// Package sim is the simulated environment in which real raft.Raft servers
// run: virtual network, durable stores ("disks"), recording FSM, history and
// the history oracles. Everything here is meant to run inside a
// testing/synctest bubble. World.Mu is a leaf lock: it is never held across a
// blocking operation.
package sim

import (
	"fmt"
	"sort"
	"strings"
	"sync"
	"time"

	"github.com/hashicorp/raft"
)

// Violation is one oracle verdict.
type Violation struct {
	Property string `json:"property"`
	Rule     string `json:"rule"`
	Sig      string `json:"signature"`
	Detail   string `json:"detail"`
	At       int64  `json:"at_ms"`
	Seq      int    `json:"seq"`
}

// Event is one history record (kept compact; all fields optional).
type Event struct {
	Seq  int    `json:"n"`
	T    int64  `json:"t"` // virtual milliseconds since world start
	Kind string `json:"k"`
	Srv  string `json:"s,omitempty"`
	Gen  int    `json:"g,omitempty"`
	Peer string `json:"p,omitempty"`
	Term uint64 `json:"term,omitempty"`
	A    uint64 `json:"a,omitempty"`
	B    uint64 `json:"b,omitempty"`
	C    uint64 `json:"c,omitempty"`
	S    string `json:"x,omitempty"`
	OK   bool   `json:"ok,omitempty"`
}

type Server struct {
	ID   raft.ServerID
	Addr raft.ServerAddress
	Disk *Disk     // durable truth of this server identity
	Inst *Instance // current incarnation (nil when down)
	Gen  int
	// per-identity facts that survive restarts (used by oracles)
	MaxTermSeen uint64
	Grants      map[uint64]string // term -> candidate granted (C01/R3, C06/R1)
	opCount     int
}

// World is the whole simulated universe of one case.
type World struct {
	Mu         sync.Mutex
	T0         time.Time
	Servers    map[string]*Server
	Order      []string
	Net        *Net
	Events     []Event
	Seq        int
	Viol       []Violation
	violSig    map[string]bool
	KeepEvents bool
	MaxEvents  int

	O *Oracles

	// Stop, if set, ends Advance early (violation found / wall budget exhausted).
	Stop func() bool
	// Round, if set, runs at every quiescent point inside Settle (between delivery rounds).
	Round func()

	// FaultPlan, if set, decides the fate of every durable operation (called under Mu).
	AddrIsID  bool // set before AddServer: server addresses equal their ids
	FaultPlan func(op *DiskOp) Decision
	// ReadFault, if set, decides whether a LogStore.GetLog call fails (called
	// under Mu, only for call sites where raft handles a read error).
	ReadFault func(in *Instance, site string, index uint64) bool
	// StableReadFault, if set, decides whether a StableStore read fails (called under Mu)
	StableReadFault func(in *Instance, key string) bool
	// ReadFaultActive is the cheap pre-check (is any read fault armed for this server now?)
	ReadFaultActive func(in *Instance) bool

	nextPayload uint64
	Debug       bool
}

func NewWorld() *World {
	w := &World{T0: time.Now(), Servers: map[string]*Server{}, violSig: map[string]bool{}, KeepEvents: true, MaxEvents: 200000}
	w.Net = newNet(w)
	w.O = newOracles(w)
	return w
}

// Now returns virtual milliseconds since world start.
func (w *World) Now() int64 { return int64(time.Since(w.T0) / time.Millisecond) }

func (w *World) NowMicro() int64 { return int64(time.Since(w.T0) / time.Microsecond) }

// ev appends a history event. Caller holds w.Mu.
func (w *World) ev(e Event) int {
	e.Seq = w.Seq
	w.Seq++
	e.T = w.Now()
	if w.KeepEvents && len(w.Events) < w.MaxEvents {
		w.Events = append(w.Events, e)
	}
	if w.Debug {
		fmt.Printf("EV %+v\n", e)
	}
	return e.Seq
}

// Ev appends a history event (takes the lock).
func (w *World) Ev(e Event) {
	w.Mu.Lock()
	w.ev(e)
	w.Mu.Unlock()
}

// violate records a verdict once per signature. Caller holds w.Mu.
func (w *World) violate(prop, rule, sig, format string, args ...any) {
	if w.violSig[prop+sig] {
		return
	}
	w.violSig[prop+sig] = true
	v := Violation{Property: prop, Rule: rule, Sig: sig, Detail: fmt.Sprintf(format, args...), At: w.Now(), Seq: w.Seq}
	w.Viol = append(w.Viol, v)
	if w.Debug {
		fmt.Printf("VIOLATION %+v\n", v)
	}
}

// Violate is the locking variant for callers outside the package.
func (w *World) Violate(prop, rule, sig, format string, args ...any) {
	w.Mu.Lock()
	w.violate(prop, rule, sig, format, args...)
	w.Mu.Unlock()
}

func (w *World) Violations() []Violation {
	w.Mu.Lock()
	defer w.Mu.Unlock()
	return append([]Violation(nil), w.Viol...)
}

func (w *World) AddServer(id string, flavour Flavour) *Server {
	addr := "addr-" + id
	if w.AddrIsID {
		addr = id // protocol versions below 3 require LocalID == network address
	}
	s := &Server{ID: raft.ServerID(id), Addr: raft.ServerAddress(addr), Grants: map[uint64]string{}}
	s.Disk = NewDisk(flavour)
	w.Mu.Lock()
	w.Servers[id] = s
	w.Order = append(w.Order, id)
	w.Mu.Unlock()
	return s
}

func (w *World) ServerByAddr(addr raft.ServerAddress) *Server {
	return w.Servers[strings.TrimPrefix(string(addr), "addr-")]
}

func (w *World) NewPayload() uint64 {
	w.Mu.Lock()
	defer w.Mu.Unlock()
	w.nextPayload++
	return w.nextPayload
}

// SortedIDs returns server ids in creation order.
func (w *World) SortedIDs() []string { return append([]string(nil), w.Order...) }

func sortedKeys[V any](m map[uint64]V) []uint64 {
	ks := make([]uint64, 0, len(m))
	for k := range m {
		ks = append(ks, k)
	}
	sort.Slice(ks, func(i, j int) bool { return ks[i] < ks[j] })
	return ks
}
