package sim

import (
	"fmt"
	"hash/fnv"
	"sort"
	"strings"

	"github.com/hashicorp/raft"
)

// centry is an entry the harness knows to be committed.
type centry struct {
	Index, Term uint64
	Type        raft.LogType
	Hash        uint64
	Payload     uint64
	Src         string
}

type idxTerm struct{ I, T uint64 }

type entryID struct {
	Hash     uint64
	PrevTerm uint64 // 0 = unknown
	Type     raft.LogType
}

type cfgRec struct {
	Index, Term uint64
	Conf        raft.Configuration
}

// agreedCmd is one command of the agreed (committed) history in FSM order, or
// a user-restore marker that replaces the state.
type agreedCmd struct {
	Index, Term, Payload uint64
	Hash, Count          uint64 // FSM hash / count after this element
	Restore              bool
}

// Oracles holds the registries the history oracles work on. All methods are
// called with World.Mu held.
type Oracles struct {
	w *World

	entries      map[idxTerm]entryID // C04/R5 identity registry
	committed    map[uint64]*centry  // C03 registry
	maxCommit    uint64
	configs      []cfgRec // every configuration entry ever stored anywhere, by (index, term)
	agreed       []agreedCmd
	fsmNext      map[*Instance]uint64 // last index handed to this FSM instance (R2)
	restoreFloor uint64               // indexes <= this are exempt from majority checks (user Restore)

	leaderOf            map[uint64]string // C01/R1
	leaderObs           []LeaderObs
	acks                map[string][]Ack
	payloadAt           map[uint64]uint64
	watched             map[uint64]string
	bootstrapped        bool
	leaderCfgs          map[string][]leaderCfg // per server: the configurations it appended as leader, in order
	cfgPrev             map[string]uint64 // "server/index" of a configuration entry appended by a leader -> index of the configuration it replaced
	unconfirmedRestores map[string]int // user restores that replaced a server's state but have not returned nil
	timeoutNows         map[string][]int64
	termStart           map[string]uint64 // server/term -> first index it appended as leader of that term
	userSnaps           map[uint64]uint64 // state hash of operator-supplied snapshots -> burned index
	userSnapMs          map[uint64]int64  // ... -> virtual ms at which it was written
	Quiet               bool              // faults have stopped: progress rules (C12/R3) are armed
	snapRepeat          map[string]*repeatRec
	aeRepeat            map[string]*repeatRec
	senderOf            map[uint64]string // C01/R2

	// statistics for non-triviality
	Stats     map[string]int
	LeaderSeq []string // "term:server" in observation order

	// switches (a check may disable rules that do not apply to its engine)
	NoMajorityCheck bool
	SoloMode        bool // only one real server: cross-server rules are fed by the model instead
}

func newOracles(w *World) *Oracles {
	return &Oracles{w: w, entries: map[idxTerm]entryID{}, committed: map[uint64]*centry{}, fsmNext: map[*Instance]uint64{},
		leaderOf: map[uint64]string{}, senderOf: map[uint64]string{}, Stats: map[string]int{},
		acks: map[string][]Ack{}, payloadAt: map[uint64]uint64{}, watched: map[uint64]string{}, snapRepeat: map[string]*repeatRec{}, aeRepeat: map[string]*repeatRec{}, userSnaps: map[uint64]uint64{}, userSnapMs: map[uint64]int64{}, termStart: map[string]uint64{}, timeoutNows: map[string][]int64{}, unconfirmedRestores: map[string]int{}}
}

func contentHash(l *raft.Log) uint64 {
	h := fnv.New64a()
	h.Write([]byte{byte(l.Type)})
	h.Write(l.Data)
	h.Write([]byte{0xff})
	h.Write(l.Extensions)
	return h.Sum64()
}

func (o *Oracles) stat(k string) { o.Stats[k]++ }

// ---------------------------------------------------------------------------
// configuration helpers

func voters(c raft.Configuration) []string {
	var v []string
	for _, s := range c.Servers {
		if s.Suffrage == raft.Voter {
			v = append(v, string(s.ID))
		}
	}
	return v
}

func cfgString(c raft.Configuration) string {
	var b strings.Builder
	for _, s := range c.Servers {
		fmt.Fprintf(&b, "%s:%s ", s.ID, s.Suffrage)
	}
	return strings.TrimSpace(b.String())
}

func sameCfg(a, b raft.Configuration) bool {
	if len(a.Servers) != len(b.Servers) {
		return false
	}
	for i := range a.Servers {
		if a.Servers[i] != b.Servers[i] {
			return false
		}
	}
	return true
}

func (o *Oracles) registerConfig(index, term uint64, c raft.Configuration) {
	for _, r := range o.configs {
		if r.Index == index && r.Term == term {
			return
		}
	}
	o.configs = append(o.configs, cfgRec{index, term, c.Clone()})
}

// LatestCfgInDisk returns the latest configuration durably visible on a disk
// (newest snapshot + log above it).
func LatestCfgInDisk(d *Disk, usable bool) (raft.Configuration, uint64) {
	var conf raft.Configuration
	var idx uint64
	sn := d.NewestSnap()
	if usable {
		sn = d.NewestUsableSnap()
	}
	var from uint64
	if sn != nil {
		conf, idx, from = sn.Meta.Configuration.Clone(), sn.Meta.ConfigurationIndex, sn.Meta.Index
	}
	for _, k := range sortedKeys(d.Logs) {
		if k <= from {
			continue
		}
		if l := d.Logs[k]; l.Type == raft.LogConfiguration {
			conf, idx = raft.DecodeConfiguration(l.Data), k
		}
	}
	return conf, idx
}

// onMajority reports whether (index, term) is durably held by a strict
// majority of the voters of some configuration that can be in force for it.
func (o *Oracles) onMajority(index, term uint64) (bool, string) {
	// newest committed configuration at or below index
	var floor uint64
	for _, c := range o.configs {
		// (a configuration entry itself may be committed by the quorum of its
		// predecessor: the leader counts its own copy before switching the
		// quorum computation; old and new majorities overlap)
		if c.Index < index && c.Index > floor {
			if ce, ok := o.committed[c.Index]; ok && ce.Term == c.Term {
				floor = c.Index
			}
		}
	}
	var tried []string
	for _, c := range o.configs {
		if c.Index < floor {
			continue
		}
		vs := voters(c.Conf)
		n := 0
		for _, v := range vs {
			if s := o.w.Servers[v]; s != nil && s.Disk.Has(index, term) {
				n++
			}
		}
		if n*2 > len(vs) {
			return true, ""
		}
		tried = append(tried, fmt.Sprintf("cfg@%d/%d{%s}: %d of %d voters", c.Index, c.Term, cfgString(c.Conf), n, len(vs)))
	}
	return false, strings.Join(tried, "; ")
}

// ---------------------------------------------------------------------------
// committed registry (C03)

// commit registers an entry as committed. src says how the harness learned it.
func (o *Oracles) commit(index, term uint64, typ raft.LogType, hash, payload uint64, src string) {
	if index == 0 {
		return
	}
	if e, ok := o.committed[index]; ok {
		if e.Term != term || (hash != 0 && e.Hash != 0 && e.Hash != hash) {
			o.w.violate("C03", "R3", "C03/R3/two-entries-committed-at-one-index",
				"index %d committed as term %d (%s) and as term %d (%s)", index, e.Term, e.Src, term, src)
		}
		if e.Hash == 0 {
			e.Hash, e.Type, e.Payload = hash, typ, payload
		}
		return
	}
	o.committed[index] = &centry{Index: index, Term: term, Type: typ, Hash: hash, Payload: payload, Src: src}
	if index > o.maxCommit {
		o.maxCommit = index
	}
	if !o.NoMajorityCheck && index > o.restoreFloor {
		if ok, why := o.onMajority(index, term); !ok {
			o.w.violate("C05", "R1", "C05/R1/committed-without-voter-majority",
				"entry %d/%d reported committed (%s) but not durably on a voter majority: %s", index, term, src, why)
		}
	}
}

// CommitRange registers the entries from..upto of the incarnation's log as
// committed (used for CommitIndex() samples).
func (o *Oracles) CommitRange(in *Instance, from, upto uint64, src string) {
	d := in.disk
	if upto-from > 100000 {
		from = upto - 100000
	}
	for i := from; i <= upto; i++ {
		if l, ok := d.Logs[i]; ok {
			o.commit(i, l.Term, l.Type, contentHash(l), DecodePayload(l.Data), src)
		}
	}
}

// ---------------------------------------------------------------------------
// durable operations

func (o *Oracles) beforeOp(op *DiskOp) {
	in := op.Inst
	d := in.disk
	sid := in.ID()
	if op.Kind == OpSnapClose && op.Site == "installSnapshot" {
		in.installing = true
	}
	switch op.Kind {
	case OpDeleteRange:
		o.stat("delete@" + op.Site)
		snap := d.SnapIndex()
		for i := range d.Logs {
			if i < op.Min || i > op.Max {
				continue
			}
			if ce, ok := o.committed[i]; ok && ce.Term == d.Logs[i].Term && i > snap && !strings.Contains(op.Chain, "removeOldLogs") {
				o.w.violate("C03", "R2", "C03/R2/committed-entry-deleted@"+op.Site,
					"%s deletes [%d,%d] at %s: entry %d/%d is committed (%s) and not covered by its snapshot (%d); log: %s",
					sid, op.Min, op.Max, op.Site, i, ce.Term, ce.Src, snap, d.LogString())
				break
			}
		}
		o.checkDeletion(op)
	case OpStoreLogs:
		for _, l := range op.Logs {
			if ce, ok := o.committed[l.Index]; ok && (ce.Term != l.Term || (ce.Hash != 0 && ce.Hash != contentHash(l))) {
				if old, had := d.Logs[l.Index]; had && old.Term == ce.Term {
					o.w.violate("C03", "R2", "C03/R2/committed-entry-overwritten@"+op.Site,
						"%s overwrites committed entry %d/%d (%s) with term %d at %s", sid, l.Index, ce.Term, ce.Src, l.Term, op.Site)
				}
			}
		}
		if op.Site == "dispatchLogs" {
			o.checkLeaderAppend(op)
		}
	}
}

func (o *Oracles) afterOp(op *DiskOp) {
	in := op.Inst
	d := in.disk
	sid := in.ID()
	switch op.Kind {
	case OpStoreLogs:
		o.stat("store@" + op.Site)
		o.notePayloads(in, op)
		for _, l := range op.Logs {
			// C04/R5 identity registry + R4 term monotonicity
			var prevTerm uint64
			if p, ok := d.Logs[l.Index-1]; ok {
				prevTerm = p.Term
				if p.Term > l.Term {
					o.w.violate("C04", "R4", "C04/R4/terms-decrease-within-log",
						"%s log has %d/%d followed by %d/%d (stored at %s); log: %s", sid, p.Index, p.Term, l.Index, l.Term, op.Site, d.LogString())
				}
			} else if sn := d.NewestSnap(); sn != nil && sn.Meta.Index == l.Index-1 {
				prevTerm = sn.Meta.Term
			}
			if nx, ok := d.Logs[l.Index+1]; ok && nx.Term < l.Term {
				o.w.violate("C04", "R4", "C04/R4/terms-decrease-within-log",
					"%s log has %d/%d followed by %d/%d (stored at %s); log: %s", sid, l.Index, l.Term, nx.Index, nx.Term, op.Site, d.LogString())
			}
			key := idxTerm{l.Index, l.Term}
			h := contentHash(l)
			if e, ok := o.entries[key]; ok {
				if e.Hash != h {
					o.w.violate("C04", "R5", "C04/R5/same-index-term-different-content",
						"%s stores %d/%d type %v with content differing from what another log holds at that index and term (site %s)", sid, l.Index, l.Term, l.Type, op.Site)
				} else if e.PrevTerm != 0 && prevTerm != 0 && e.PrevTerm != prevTerm {
					o.w.violate("C04", "R5", "C04/R5/same-index-term-different-predecessor",
						"%s stores %d/%d after an entry of term %d; another log has it after term %d (site %s); log: %s", sid, l.Index, l.Term, prevTerm, e.PrevTerm, op.Site, d.LogString())
				} else if e.PrevTerm == 0 && prevTerm != 0 {
					e.PrevTerm = prevTerm
					o.entries[key] = e
				}
			} else {
				o.entries[key] = entryID{Hash: h, PrevTerm: prevTerm, Type: l.Type}
			}
			if l.Type == raft.LogConfiguration {
				o.registerConfig(l.Index, l.Term, raft.DecodeConfiguration(l.Data))
				o.checkTwoUncommittedConfigs(in, op)
			}
		}
		o.checkCoverage(in, op)
	case OpDeleteRange:
		o.checkCoverage(in, op)
	case OpSnapClose:
		o.stat("snapshot@" + op.Site)
		o.checkSnapshot(in, op)
		o.checkCoverage(in, op)
	case OpSetUint64:
		if op.Key == "CurrentTerm" {
			if op.Val < in.Srv.MaxTermSeen {
				o.w.violate("C06", "R3", "C06/R3/persisted-term-decreases", "%s persists term %d after %d (site %s)", sid, op.Val, in.Srv.MaxTermSeen, op.Site)
			}
			if op.Val > in.Srv.MaxTermSeen {
				in.Srv.MaxTermSeen = op.Val
			}
		}
	}
}

// checkCoverage: C11/R1 — every index up to the last index is covered by the
// newest durable snapshot or present in the log, the log is contiguous above it.
func (o *Oracles) checkCoverage(in *Instance, op *DiskOp) {
	d := in.disk
	snap := d.SnapIndex()
	ks := sortedKeys(d.Logs)
	var prev uint64
	for _, k := range ks {
		if k <= snap {
			prev = k
			continue
		}
		want := prev + 1
		if prev < snap {
			want = snap + 1
		}
		if k != want {
			o.w.violate("C11", "R1", "C11/R1/hole-in-durable-state@"+op.Site,
				"%s after %s at %s: newest snapshot %d, log holds %d but not %d; log: %s", in.ID(), op.Kind, op.Site, snap, k, want, d.LogString())
			return
		}
		prev = k
	}
}

// checkDeletion: C11/R3 — what the compaction call sites may delete.
func (o *Oracles) checkDeletion(op *DiskOp) {
	in := op.Inst
	d := in.disk
	switch {
	case op.Site == "compactLogsWithTrailing" && !strings.Contains(op.Chain, "removeOldLogs"):
		snap := d.SnapIndex()
		if op.Max > snap {
			o.w.violate("C11", "R3", "C11/R3/compaction-deletes-above-snapshot",
				"%s compaction deletes [%d,%d] but newest durable snapshot is %d", in.ID(), op.Min, op.Max, snap)
		}
	}
}

// checkSnapshot: C11/R2 — a durable snapshot is exactly the committed history.
func (o *Oracles) checkSnapshot(in *Instance, op *DiskOp) {
	sn := op.Snap
	m := sn.Meta
	if op.Site == "restoreUserSnapshot" {
		// operator override: arbitrary content at a burned index opens a new epoch
		var st FSMState
		if err := jsonUnmarshal(sn.Data, &st); err == nil {
			o.userSnaps[st.Hash] = m.Index
			o.userSnapMs[st.Hash] = o.w.Now()
			o.unconfirmedRestores[in.ID()]++
			o.UserRestored(m.Index, st)
			o.stat("user-restore-snapshot")
			// C20/R5: refused while a leadership transfer is in progress. The flag is
			// raised by the leader loop itself, which is also the thread writing
			// this snapshot: raised now means it was raised when the call was taken.
			if in.R != nil && in.R.VerifLeadershipTransferInProgress() {
				o.w.violate("C20", "R5", "C20/R5/restore-performed-during-a-leadership-transfer", "%s writes the state supplied to Restore as a snapshot (burned index %d) while its leadership transfer is in progress", in.ID(), m.Index)
			}
			// C20/R5: refused while a configuration change is uncommitted
			if _, ci := LatestCfgInDisk(in.disk, false); ci > in.R.CommitIndex() {
				o.w.violate("C20", "R5", "C20/R5/restore-accepted-with-uncommitted-configuration", "%s takes a user restore at burned index %d while its configuration entry %d is above its commit index %d", in.ID(), m.Index, ci, in.R.CommitIndex())
			}
		}
		return
	}
	if m.Index <= o.restoreFloor {
		// below a user Restore's burned index: followers may still be applying
		// (and snapshotting) entries of the superseded epoch until they install
		// the restored snapshot - the documented hazard window of Restore
		o.stat("snapshot-below-restore-floor")
		return
	}
	if ce, ok := o.committed[m.Index]; ok {
		if ce.Term != m.Term {
			o.w.violate("C11", "R2", "C11/R2/snapshot-term-differs-from-committed-entry",
				"%s snapshot %d/%d (site %s) but committed entry %d has term %d", in.ID(), m.Index, m.Term, op.Site, m.Index, ce.Term)
		}
	} else if ok, _ := o.onMajority(m.Index, m.Term); ok && !o.SoloMode {
		// e.g. a Barrier entry: it passes through the FSM queue without an FSM
		// call, so the harness learns of its commitment from the disks
		if l, ok := in.disk.Logs[m.Index]; ok && l.Term == m.Term {
			o.commit(m.Index, l.Term, l.Type, contentHash(l), DecodePayload(l.Data), "snapshot taken at it by "+in.ID())
		}
	} else if m.Index > o.restoreFloor && !o.SoloMode {
		o.w.violate("C11", "R2", "C11/R2/snapshot-beyond-committed-history",
			"%s snapshot at %d/%d (site %s) but no entry is known committed at that index (max committed %d)", in.ID(), m.Index, m.Term, op.Site, o.maxCommit)
	}
	// content
	var st FSMState
	if err := jsonUnmarshal(sn.Data, &st); err != nil {
		o.w.violate("C11", "R2", "C11/R2/snapshot-content-unreadable", "%s snapshot %s: %v", in.ID(), m.ID, err)
		return
	}
	if !o.SoloMode {
		if want, ok := o.agreedStateAt(m.Index); ok {
			if want.Hash != st.Hash || want.Count != st.Count {
				o.w.violate("C11", "R2", "C11/R2/snapshot-content-differs-from-committed-history",
					"%s snapshot %d/%d (site %s) holds %d commands hash %x; agreed history up to %d has %d commands hash %x",
					in.ID(), m.Index, m.Term, op.Site, st.Count, st.Hash, m.Index, want.Count, want.Hash)
			}
		}
		// configuration: latest committed configuration entry <= index
		var best *cfgRec
		for i := range o.configs {
			c := &o.configs[i]
			if c.Index > m.Index {
				continue
			}
			if ce, ok := o.committed[c.Index]; ok && ce.Term != c.Term {
				continue
			} else if !ok {
				// not sampled before it was compacted away: judge on the disks
				// (a snapshot vouches for a configuration entry only if it
				// carries that very configuration)
				if !o.configOnMajority(c) {
					continue
				}
			}
			if best == nil || c.Index > best.Index {
				best = c
			}
		}
		if best != nil && (m.ConfigurationIndex != best.Index || !sameCfg(m.Configuration, best.Conf)) && m.Index > o.restoreFloor {
			o.w.violate("C11", "R2", "C11/R2/snapshot-configuration-not-the-committed-one",
				"%s snapshot %d/%d (site %s) carries configuration@%d {%s}; latest committed configuration <= %d is @%d {%s}",
				in.ID(), m.Index, m.Term, op.Site, m.ConfigurationIndex, cfgString(m.Configuration), m.Index, best.Index, cfgString(best.Conf))
			o.w.Viol[len(o.w.Viol)-1].Detail += "; disks: " + o.disks() + fmt.Sprintf("; configs: %v", o.configs)
		}
	}
}

// agreedStateAt returns the FSM fold of the agreed history up to index.
func (o *Oracles) agreedStateAt(index uint64) (agreedCmd, bool) {
	i := sort.Search(len(o.agreed), func(i int) bool { return o.agreed[i].Index > index })
	if i == 0 {
		return agreedCmd{}, true // empty state
	}
	return o.agreed[i-1], true
}

type leaderCfg struct {
	Seq     int
	Term    uint64
	Members map[string]bool
}

// NotMemberAt: at sequence point seq, the latest configuration that leader had
// appended itself in this term of its leadership (if any) did not contain peer
// at all - the leader had removed it. (Configurations it appended in earlier
// terms may have been truncated or superseded and say nothing.) Caller holds W.Mu.
func (o *Oracles) NotMemberAt(leader, peer string, seq int, term uint64) bool {
	recs := o.leaderCfgs[leader]
	for i := len(recs) - 1; i >= 0; i-- {
		if recs[i].Seq < seq && recs[i].Term == term {
			return !recs[i].Members[peer]
		}
	}
	return false
}

// PrevCfgOfAppend: the index of the configuration that was the latest one in
// srv's log when it appended, as leader, the configuration entry at index.
// Caller holds W.Mu.
func (o *Oracles) PrevCfgOfAppend(srv string, index uint64) (uint64, bool) {
	p, ok := o.cfgPrev[fmt.Sprintf("%s/%d", srv, index)]
	return p, ok
}

// checkLeaderAppend: C07(b) — a leader appends a configuration only after the
// previous one is committed and after an entry of its own term is committed.
func (o *Oracles) checkLeaderAppend(op *DiskOp) {
	in := op.Inst
	d := in.disk
	if len(op.Logs) > 0 {
		key := fmt.Sprintf("%s/%d", in.ID(), op.Logs[0].Term)
		if _, ok := o.termStart[key]; !ok {
			o.termStart[key] = op.Logs[0].Index
		}
	}
	for _, l := range op.Logs {
		if l.Type != raft.LogConfiguration {
			continue
		}
		o.stat("leader-config-append")
		commit := in.R.CommitIndex()
		// previous configuration in this log / snapshot
		_, prevIdx := LatestCfgInDisk(d, false)
		if o.cfgPrev == nil {
			o.cfgPrev = map[string]uint64{}
		}
		o.cfgPrev[fmt.Sprintf("%s/%d", in.ID(), l.Index)] = prevIdx
		members := map[string]bool{}
		for _, sv := range raft.DecodeConfiguration(l.Data).Servers {
			members[string(sv.ID)] = true
		}
		if o.leaderCfgs == nil {
			o.leaderCfgs = map[string][]leaderCfg{}
		}
		o.leaderCfgs[in.ID()] = append(o.leaderCfgs[in.ID()], leaderCfg{Seq: o.w.Seq, Term: l.Term, Members: members})
		if prevIdx > commit {
			o.w.violate("C07", "R2", "C07/R2/config-appended-before-previous-committed",
				"%s (term %d) appends configuration at %d while its previous configuration at %d is above its commit index %d", in.ID(), l.Term, l.Index, prevIdx, commit)
		}
		// first index this leader appended in its term (its no-op)
		first := o.termStart[fmt.Sprintf("%s/%d", in.ID(), l.Term)]
		if first == 0 || first == l.Index || commit < first {
			o.w.violate("C07", "R2", "C07/R2/config-appended-before-own-term-commit",
				"%s (term %d) appends configuration at %d with commit index %d below the first entry of its term (%d)", in.ID(), l.Term, l.Index, commit, first)
		}
	}
}

// checkTwoUncommittedConfigs: no log ever holds two configuration entries that
// are both uncommitted (judged on the durable state of all servers).
func (o *Oracles) checkTwoUncommittedConfigs(in *Instance, op *DiskOp) {
	d := in.disk
	var unc []uint64
	for _, k := range sortedKeys(d.Logs) {
		l := d.Logs[k]
		if l.Type != raft.LogConfiguration || k <= d.SnapIndex() {
			continue
		}
		if ce, ok := o.committed[k]; ok && ce.Term == l.Term {
			continue
		}
		if ok, _ := o.onMajority(k, l.Term); ok {
			continue
		}
		unc = append(unc, k)
	}
	if len(unc) >= 2 {
		o.w.violate("C07", "R2", "C07/R2/two-uncommitted-configurations-in-one-log",
			"%s log holds uncommitted configuration entries at %v after %s at %s; log: %s", in.ID(), unc, op.Kind, op.Site, d.LogString())
	}
}

func (o *Oracles) onCrash(in *Instance) { o.stat("crash") }

// onStart: C10/R1 — a new incarnation reports what the durable image holds.
func (o *Oracles) onStart(in *Instance) {
	d := in.Srv.Disk
	r := in.R
	if got, want := r.CurrentTerm(), d.Term(); got != want {
		o.w.violate("C10", "R1", "C10/R1/term-not-restored", "%s restarted with CurrentTerm %d, durable term %d", in.ID(), got, want)
	}
	want := d.Last()
	if sn := d.NewestUsableSnap(); sn != nil && sn.Meta.Index > want {
		want = sn.Meta.Index
	}
	if got := r.LastIndex(); got != want {
		o.w.violate("C10", "R1", "C10/R1/last-index-not-restored", "%s restarted with LastIndex %d, durable last index %d (%s)", in.ID(), got, want, d.LogString())
	}
	wc, wi := LatestCfgInDisk(d, true)
	f := r.GetConfiguration()
	if err := f.Error(); err == nil {
		if got := f.Configuration(); !sameCfg(got, wc) {
			o.w.violate("C10", "R1", "C10/R1/configuration-not-restored",
				"%s restarted with configuration {%s}, durable state holds {%s} (index %d)", in.ID(), cfgString(got), cfgString(wc), wi)
		}
	}
	if in.Gen > 1 {
		o.stat("restart")
	}
}

// ---------------------------------------------------------------------------
// state observations (C01/R1, C03/R1, C07/R3)

func (o *Oracles) onState(in *Instance, st raft.RaftState, term uint64) {
	sid := in.ID()
	switch st {
	case raft.Leader:
		o.stat("leader")
		o.LeaderSeq = append(o.LeaderSeq, fmt.Sprintf("%d:%s", term, sid))
		o.leaderObs = append(o.leaderObs, LeaderObs{Srv: sid, Term: term, Seq: o.w.Seq, T: o.w.Now()})
		if prev, ok := o.leaderOf[term]; ok && prev != sid {
			o.w.violate("C01", "R1", "C01/R1/two-leaders-in-one-term", "term %d: %s and %s both became leader", term, prev, sid)
		}
		o.leaderOf[term] = sid
		// a winner counted its own vote for this term (a candidate whose own
		// vote could not be persisted sends requests but never tallies)
		o.grant(in.Srv, term, sid, "won the election")
		// C03/R1 leader completeness against the durable state
		d := in.disk
		snap := d.SnapIndex()
		for i, ce := range o.committed {
			if i <= snap {
				continue
			}
			l, ok := d.Logs[i]
			if !ok || l.Term != ce.Term || (ce.Hash != 0 && contentHash(l) != ce.Hash) {
				have := "nothing"
				if ok {
					have = fmt.Sprintf("%d/%d", l.Index, l.Term)
				}
				o.w.violate("C03", "R1", "C03/R1/leader-lacks-committed-entry",
					"%s became leader of term %d but holds %s at committed index %d (committed: term %d, %s); log: %s", sid, term, have, i, ce.Term, ce.Src, d.LogString())
				break
			}
		}
		fallthrough
	case raft.Candidate:
		// C07/R3: only voters of their own latest configuration campaign or lead
		c, idx := LatestCfgInDisk(in.disk, false)
		if idx > 0 {
			isVoter := false
			for _, v := range voters(c) {
				if v == sid {
					isVoter = true
				}
			}
			if !isVoter && st == raft.Leader {
				o.w.violate("C07", "R3", "C07/R3/non-voter-became-leader", "%s became leader of term %d but is not a voter in its latest configuration {%s}", sid, term, cfgString(c))
			}
		}
	}
}

// ---------------------------------------------------------------------------
// FSM stream (C02)

func (o *Oracles) onFSMEntry(in *Instance, l *raft.Log, isCmd bool) {
	sid := in.ID()
	// R2: strictly increasing per FSM instance
	if last := o.fsmNext[in]; l.Index <= last {
		o.w.violate("C02", "R2", "C02/R2/fsm-index-not-increasing", "%s FSM handed index %d after %d", sid, l.Index, last)
	}
	o.fsmNext[in] = l.Index
	h := contentHash(l)
	// R1 + C03 registry
	if ce, ok := o.committed[l.Index]; ok && (ce.Term != l.Term || (ce.Hash != 0 && ce.Hash != h)) {
		o.w.violate("C02", "R1", "C02/R1/fsm-entry-differs-from-agreed",
			"%s FSM handed %d/%d (payload %d) but the agreed entry at %d is term %d payload %d (%s)", sid, l.Index, l.Term, DecodePayload(l.Data), l.Index, ce.Term, ce.Payload, ce.Src)
		return
	}
	o.commit(l.Index, l.Term, l.Type, h, DecodePayload(l.Data), "applied by "+sid)
	if !isCmd {
		return
	}
	o.stat("fsm-apply")
	if o.SoloMode {
		return // the solo engine compares FSM states with the model leader's fold itself
	}
	// agreed command list and the per-instance fold (R2 no skip, R3 state)
	st := in.FSM.State // already folded
	n := len(o.agreed)
	if n == 0 || o.agreed[n-1].Index < l.Index {
		// first FSM to reach this index: it defines the agreed fold. It must
		// have seen every earlier agreed command.
		var prev agreedCmd
		if n > 0 {
			prev = o.agreed[n-1]
		}
		wantHash := mix(prev.Hash, l.Index, l.Term, DecodePayload(l.Data))
		if st.Hash != wantHash || st.Count != prev.Count+1 {
			o.w.violate("C02", "R2", "C02/R2/fsm-skipped-or-repeated-entries",
				"%s FSM reached %d with %d commands (hash %x); agreed history before it has %d commands", sid, l.Index, st.Count, st.Hash, prev.Count)
		}
		o.agreed = append(o.agreed, agreedCmd{Index: l.Index, Term: l.Term, Payload: DecodePayload(l.Data), Hash: st.Hash, Count: st.Count})
		return
	}
	i := sort.Search(n, func(i int) bool { return o.agreed[i].Index >= l.Index })
	if (i == n || o.agreed[i].Index != l.Index || o.agreed[i].Restore) && l.Index <= o.restoreFloor {
		// an entry below a user-restore's burned index that the restoring leader
		// never applied (documented hazard of Restore); the snapshot install
		// that must follow replaces this FSM's state.
		o.stat("applied-pre-restore-entry")
		return
	}
	if i == n || o.agreed[i].Index != l.Index {
		o.w.violate("C02", "R2", "C02/R2/fsm-applied-unagreed-index", "%s FSM handed command at %d which no other FSM passed through in order", sid, l.Index)
		return
	}
	if a := o.agreed[i]; a.Hash != st.Hash || a.Count != st.Count {
		o.w.violate("C02", "R2", "C02/R2/fsm-skipped-or-repeated-entries",
			"%s FSM state after %d is %d commands hash %x; agreed history gives %d commands hash %x", sid, l.Index, st.Count, st.Hash, a.Count, a.Hash)
	}
}

func (o *Oracles) onFSMConfig(in *Instance, index uint64, c raft.Configuration) {
	o.stat("fsm-config")
}

func (o *Oracles) onFSMRestore(in *Instance, st FSMState) {
	o.stat("fsm-restore")
	// R3: restored state equals the agreed fold up to its index — judged at
	// snapshot creation (checkSnapshot) for content; here the per-instance
	// cursor moves.
	if burned, ok := o.userSnaps[st.Hash]; ok {
		o.fsmNext[in] = burned
		return
	}
	if st.LastIdx > o.fsmNext[in] {
		o.fsmNext[in] = st.LastIdx
	} else {
		// restoring an older/equal snapshot: later entries may be re-applied
		// (the behaviour C02 itself describes for start-up and user restore)
		o.fsmNext[in] = st.LastIdx
	}
	if o.SoloMode {
		// the model leader's snapshot is the ground truth: continue the fold from it
		if n := len(o.agreed); n == 0 || o.agreed[n-1].Index < st.LastIdx {
			o.agreed = append(o.agreed, agreedCmd{Index: st.LastIdx, Hash: st.Hash, Count: st.Count, Restore: true})
		}
		return
	}
	if want, ok := o.agreedStateAt(st.LastIdx); ok && st.LastIdx > o.restoreFloor {
		if want.Hash != st.Hash || want.Count != st.Count {
			o.w.violate("C02", "R3", "C02/R3/restored-state-differs-from-agreed-history",
				"%s FSM restored to %d commands hash %x (last index %d); agreed history up to there has %d commands hash %x", in.ID(), st.Count, st.Hash, st.LastIdx, want.Count, want.Hash)
		}
	}
}

// UserRestored opens a new epoch: the supplied state replaces history up to
// the burned index.
func (o *Oracles) UserRestored(burned uint64, st FSMState) {
	// drop agreed commands above the marker position is unnecessary: indexes grow
	o.agreed = append(o.agreed, agreedCmd{Index: burned, Hash: st.Hash, Count: st.Count, Restore: true})
	sort.SliceStable(o.agreed, func(i, j int) bool { return o.agreed[i].Index < o.agreed[j].Index })
	if burned > o.restoreFloor {
		o.restoreFloor = burned
	}
}

// ---------------------------------------------------------------------------
// messages (C01/R2, R3)

// reportedTermDurable (C06/R3): a term a server puts on the wire - in a request
// it sends as leader or candidate, or in any response - must already be in its
// stable store: a crash right after would otherwise bring it back reporting a
// lower term. (RequestPreVote and its response carry the proposed term, not the server's own.)
func (o *Oracles) reportedTermDurable(id string, gen int, term uint64, what string) {
	s := o.w.Servers[id]
	if s == nil || s.Inst == nil || s.Inst.Gen != gen || s.Inst.dead || term == 0 {
		return
	}
	if d := s.Inst.disk.Term(); d < term {
		o.w.violate("C06", "R3", "C06/R3/reported-term-not-durable", "%s put term %d on the wire (%s) while its stable store holds CurrentTerm %d: a crash now brings it back reporting a lower term", id, term, what, d)
	}
}

func (o *Oracles) onRequest(m *Msg, target *Instance) {
	switch q := m.Req.(type) {
	case *raft.AppendEntriesRequest:
		o.reportedTermDurable(m.From, m.FromGen, q.Term, "AppendEntries request")
	case *raft.RequestVoteRequest:
		o.reportedTermDurable(m.From, m.FromGen, q.Term, "RequestVote request")
	case *raft.InstallSnapshotRequest:
		o.reportedTermDurable(m.From, m.FromGen, q.Term, "InstallSnapshot request")
	}
	switch m.Kind {
	case KAppend, KHeartbeat, KSnapshot:
		if prev, ok := o.senderOf[m.Term]; ok && prev != m.From {
			o.w.violate("C01", "R2", "C01/R2/two-senders-in-one-term", "term %d: %s and %s both sent %s as leader", m.Term, prev, m.From, m.Kind)
		}
		o.senderOf[m.Term] = m.From
		if l, ok := o.leaderOf[m.Term]; ok && l != m.From && !o.SoloMode {
			o.w.violate("C01", "R2", "C01/R2/sender-is-not-the-elected-leader", "term %d: %s sent %s but %s was observed leader", m.Term, m.From, m.Kind, l)
		}
		if m.Kind == KSnapshot {
			o.stat("install-snapshot")
			if target != nil && target.R != nil {
				is := m.Req.(*raft.InstallSnapshotRequest)
				key := m.From + ">" + m.To
				sig := fmt.Sprintf("%d/%d", is.LastLogIndex, is.LastLogTerm)
				rr := o.snapRepeat[key]
				if rr == nil {
					rr = &repeatRec{}
					o.snapRepeat[key] = rr
				}
				progress := target.R.AppliedIndex() + target.R.LastIndex()*1000003
				if rr.sig == sig && rr.last == progress {
					rr.n++
					if o.Quiet {
						rr.qn++ // only repeats made after the faults stopped count towards the short bound
					}
					if rr.qn > 3 || rr.n > 60 {
						o.w.violate("C12", "R3", "C12/R3/reinstall-loop", "%s -> %s: InstallSnapshot(%s) delivered %d times in a row after faults stopped without the follower's last/applied index changing (follower last index %d, applied %d; disk: %s)",
							m.From, m.To, sig, rr.n+1, target.R.LastIndex(), target.R.AppliedIndex(), target.disk.LogString())
					}
				} else {
					rr.sig, rr.n, rr.qn, rr.last = sig, 0, 0, progress
				}
			}
		}
	case KTimeout:
		o.timeoutNows[m.To] = append(o.timeoutNows[m.To], o.w.Now())
	}
}

func (o *Oracles) grant(s *Server, term uint64, cand string, how string) {
	if prev, ok := s.Grants[term]; ok && prev != cand {
		o.w.violate("C01", "R3", "C01/R3/two-votes-in-one-term", "%s voted for %s and for %s in term %d (%s)", s.ID, prev, cand, term, how)
		o.w.violate("C06", "R1", "C06/R1/two-votes-in-one-term", "%s voted for %s and for %s in term %d (%s)", s.ID, prev, cand, term, how)
		return
	}
	s.Grants[term] = cand
}

// onResponseProduced runs when a live server has answered a request.
func (o *Oracles) onResponseProduced(m *Msg, target *Instance) {
	m.ProducedSeq = o.w.Seq
	if m.Kind == KSnapshot && target != nil {
		target.installing = false
	}
	if target != nil && m.Err == nil {
		switch r := m.Resp.(type) {
		case *raft.AppendEntriesResponse:
			o.reportedTermDurable(target.ID(), target.Gen, r.Term, "AppendEntries response")
		case *raft.RequestVoteResponse:
			o.reportedTermDurable(target.ID(), target.Gen, r.Term, "RequestVote response")
		case *raft.InstallSnapshotResponse:
			o.reportedTermDurable(target.ID(), target.Gen, r.Term, "InstallSnapshot response")
		}
	}
	switch r := m.Resp.(type) {
	case *raft.RequestVoteResponse:
		if r.Granted && m.Err == nil {
			o.stat("vote-granted")
			o.grant(target.Srv, m.Term, m.From, "RequestVote response")
		}
	}
}

func (o *Oracles) onResponseDelivered(m *Msg) {
	if m.Err != nil {
		return
	}
	switch r := m.Resp.(type) {
	case *raft.AppendEntriesResponse:
		o.acks[m.From] = append(o.acks[m.From], Ack{Peer: m.To, Term: m.Term, Success: r.Success, SentSeq: m.SentSeq, AckSeq: m.ProducedSeq, RecvSeq: o.w.Seq, RespTerm: r.Term, Kind: m.Kind})
		if o.Quiet && m.Kind == KAppend {
			a := m.Req.(*raft.AppendEntriesRequest)
			key := m.From + ">" + m.To
			sig := fmt.Sprintf("%d/%d/%d", a.PrevLogEntry, a.PrevLogTerm, len(a.Entries))
			rr := o.aeRepeat[key]
			if rr == nil {
				rr = &repeatRec{}
				o.aeRepeat[key] = rr
			}
			if !r.Success && r.Term <= m.Term && rr.sig == sig {
				rr.n++
				if rr.n > 3 {
					o.w.violate("C12", "R3", "C12/R3/same-append-rejected-repeatedly", "%s -> %s: AppendEntries(prev=%d/%d, %d entries) rejected %d times in a row after faults stopped (follower last index %d)", m.From, m.To, a.PrevLogEntry, a.PrevLogTerm, len(a.Entries), rr.n, r.LastLog)
				}
			} else {
				rr.sig, rr.n = sig, 0
				if !r.Success {
					rr.n = 1
				}
			}
		}
	case *raft.InstallSnapshotResponse:
		o.acks[m.From] = append(o.acks[m.From], Ack{Peer: m.To, Term: m.Term, Success: r.Success, SentSeq: m.SentSeq, AckSeq: m.ProducedSeq, RecvSeq: o.w.Seq, RespTerm: r.Term, Kind: m.Kind})
	}
}

type repeatRec struct {
	sig  string
	n    int
	qn   int // repeats counted during the quiet phase
	last uint64
}

func jsonUnmarshal(b []byte, v any) error { return jsonUnmarshalImpl(b, v) }

func (o *Oracles) disks() string {
	var b strings.Builder
	for _, id := range o.w.Order {
		d := o.w.Servers[id].Disk
		ls := d.LogString()
		if len(ls) > 200 {
			ls = ls[:90] + " ... " + ls[len(ls)-100:]
		}
		fmt.Fprintf(&b, "[%s: %s] ", id, ls)
	}
	return b.String()
}

// configOnMajority: a majority of the voters of some known configuration holds
// configuration entry c in its log, or a snapshot that carries exactly c.
func (o *Oracles) configOnMajority(c *cfgRec) bool {
	holds := func(d *Disk) bool {
		if l, ok := d.Logs[c.Index]; ok && l.Term == c.Term && l.Type == raft.LogConfiguration {
			return true
		}
		for _, sn := range d.Snaps {
			if sn.Meta.Index >= c.Index && sn.Meta.ConfigurationIndex == c.Index && sameCfg(sn.Meta.Configuration, c.Conf) {
				return true
			}
		}
		return false
	}
	for _, k := range o.configs {
		vs := voters(k.Conf)
		n := 0
		for _, v := range vs {
			if s := o.w.Servers[v]; s != nil && holds(s.Disk) {
				n++
			}
		}
		if n*2 > len(vs) {
			return true
		}
	}
	return false
}
