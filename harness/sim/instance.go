package sim

import (
	"bytes"
	"sync/atomic"
	"encoding/binary"
	"encoding/json"
	"fmt"
	"io"
	"time"

	"github.com/hashicorp/go-hclog"
	"github.com/hashicorp/raft"
)

// NodeOpts selects per-incarnation options.
type NodeOpts struct {
	Conf         func(c *raft.Config) // adjust the config (timeouts etc.)
	Batching     bool                 // FSM implements BatchingFSM
	ConfStore    bool                 // FSM implements ConfigurationStore
	Notify       bool                 // wire Config.NotifyCh
	Pipeline     bool                 // transport supports AppendEntriesPipeline
	HBFast       bool                 // transport uses the heartbeat fast path
	NoPreVote    bool                 // transport does not implement WithPreVote
	ApplyDelay   time.Duration        // FSM.Apply takes this long (virtual)
	ApplyDelayFn func() time.Duration // if set, overrides ApplyDelay (evaluated per call)
	PersistDelay time.Duration
	StoreDelayFn func() time.Duration // if set: LogStore.StoreLogs takes this long (virtual), evaluated per call
	LogOutput    io.Writer
}

// Instance is one incarnation (process lifetime) of a server.
type Instance struct {
	W     *World
	Srv   *Server
	Gen   int
	R     *raft.Raft
	FSM   *RecFSM
	Trans *Transport
	Opts  NodeOpts
	Conf  raft.Config

	disk   *Disk
	dead   bool
	deadCh chan struct{}

	NotifyCh chan bool

	LeaseStepDowns atomic.Int32 // times this incarnation logged a step-down by the lease check

	StartErr   error
	StartPanic any
	StartHung  bool
	Reaped     bool

	// observations (guarded by W.Mu)
	installing bool   // inside the InstallSnapshot handler, between the snapshot becoming durable and the response
	cfgOKKey   string // CheckLatestCfg cache
	cfgOKOps   int
	LastState  raft.RaftState
	States     []StateObs
}

// warnWatcher receives the server's log lines of level Warn and above; it
// only counts the one that names the lease check as the cause of a step-down.
type warnWatcher struct{ in *Instance }

func (ww *warnWatcher) Write(p []byte) (int, error) {
	if bytes.Contains(p, []byte("failed to contact quorum of nodes, stepping down")) {
		ww.in.LeaseStepDowns.Add(1)
	}
	return len(p), nil
}

type StateObs struct {
	T     int64
	State raft.RaftState
	Term  uint64
}

func (in *Instance) Dead() bool {
	in.W.Mu.Lock()
	defer in.W.Mu.Unlock()
	return in.dead
}

func (in *Instance) ID() string { return string(in.Srv.ID) }

// Stopped is closed when the incarnation's transport is closed (after Shutdown completed).
func (in *Instance) Stopped() <-chan struct{} { return in.Trans.closed }

// DefaultConf is the base configuration of simulated servers.
func DefaultConf(id string) *raft.Config {
	c := raft.DefaultConfig()
	c.LocalID = raft.ServerID(id)
	c.HeartbeatTimeout = 50 * time.Millisecond
	c.ElectionTimeout = 50 * time.Millisecond
	c.LeaderLeaseTimeout = 50 * time.Millisecond
	c.CommitTimeout = 5 * time.Millisecond
	c.SnapshotInterval = 24 * time.Hour
	c.SnapshotThreshold = 1 << 40
	c.Logger = hclog.NewNullLogger()
	return c
}

// Start creates a new incarnation of server id on its durable disk. NewRaft
// runs on its own goroutine so that a panic or a hang is an observation.
func (w *World) Start(id string, opts NodeOpts, bound time.Duration) *Instance {
	w.Mu.Lock()
	srv := w.Servers[id]
	srv.Gen++
	in := &Instance{W: w, Srv: srv, Gen: srv.Gen, Opts: opts, disk: srv.Disk, deadCh: make(chan struct{})}
	w.Mu.Unlock()

	conf := DefaultConf(id)
	conf.Logger = hclog.New(&hclog.LoggerOptions{Name: id, Level: hclog.Warn, Output: &warnWatcher{in}})
	if opts.LogOutput != nil {
		conf.Logger = hclog.New(&hclog.LoggerOptions{Name: id, Level: hclog.Debug, Output: opts.LogOutput})
	}
	if opts.Conf != nil {
		opts.Conf(conf)
	}
	if opts.Notify {
		in.NotifyCh = make(chan bool, 0)
		conf.NotifyCh = in.NotifyCh
	}
	in.Conf = *conf
	in.FSM = newRecFSM(in)
	in.Trans = newTransport(w, in)

	var logs raft.LogStore
	switch srv.Disk.Flavour {
	case Monotonic:
		logs = &monotonicLogStore{logStore{in}}
	case CommitTracking, CommitTrackingEager:
		logs = &commitTrackingLogStore{logStore{in}}
	default:
		logs = &logStore{in}
	}
	var trans raft.Transport = in.Trans
	if opts.NoPreVote {
		trans = &noPreVoteTransport{in.Trans}
	}

	type res struct {
		r   *raft.Raft
		err error
		p   any
	}
	ch := make(chan res, 1)
	go func() {
		var out res
		defer func() {
			if p := recover(); p != nil {
				out.p = p
			}
			ch <- out
		}()
		out.r, out.err = raft.NewRaft(conf, in.FSM.iface(), logs, &stableStore{in}, &snapStore{in}, trans)
	}()
	if bound <= 0 {
		bound = 30 * time.Second
	}
	select {
	case out := <-ch:
		in.R, in.StartErr, in.StartPanic = out.r, out.err, out.p
	case <-time.After(bound):
		in.StartHung = true
	}
	w.Mu.Lock()
	w.ev(Event{Kind: "start", Srv: id, Gen: in.Gen, OK: in.R != nil, S: fmt.Sprint(in.StartErr, in.StartPanic, in.StartHung)})
	if in.R != nil {
		srv.Inst = in
	}
	w.Mu.Unlock()
	if in.R != nil {
		in.R.RegisterObserver(raft.NewObserver(make(chan raft.Observation), true, in.observe))
		w.Mu.Lock()
		w.O.onStart(in)
		w.Mu.Unlock()
	}
	return in
}

// observe is the synchronous observer hook (runs on raft's goroutines).
func (in *Instance) observe(o *raft.Observation) bool {
	switch d := o.Data.(type) {
	case raft.RaftState:
		term := o.Raft.CurrentTerm()
		w := in.W
		w.Mu.Lock()
		if !in.dead {
			in.LastState = d
			in.States = append(in.States, StateObs{T: w.Now(), State: d, Term: term})
			w.ev(Event{Kind: "state", Srv: in.ID(), Gen: in.Gen, Term: term, S: d.String()})
			w.O.onState(in, d, term)
		}
		w.Mu.Unlock()
	}
	return false
}

// Crash freezes the durable state now and marks the incarnation dead.
func (in *Instance) Crash() {
	in.W.Mu.Lock()
	in.crashLocked("now")
	in.W.Mu.Unlock()
}

// Reap shuts the (dead or live) incarnation down and waits for its goroutines.
func (in *Instance) Reap() {
	if in.R == nil || in.Reaped {
		return
	}
	in.Reaped = true
	f := in.R.Shutdown()
	_ = f.Error()
	in.W.Mu.Lock()
	if in.Srv.Inst == in {
		in.Srv.Inst = nil
	}
	in.W.Mu.Unlock()
}

// ---------------------------------------------------------------------------
// Recording FSM

// FSMState is the whole application state: a fold over the applied commands.
type FSMState struct {
	LastIdx  uint64   `json:"last"`
	LastTerm uint64   `json:"term"`
	Count    uint64   `json:"count"`
	Hash     uint64   `json:"hash"`
	Payloads []uint64 `json:"payloads"`
	Indexes  []uint64 `json:"indexes"`
}

func (s FSMState) Clone() FSMState {
	s.Payloads = append([]uint64(nil), s.Payloads...)
	s.Indexes = append([]uint64(nil), s.Indexes...)
	return s
}

func mix(h uint64, vs ...uint64) uint64 {
	for _, v := range vs {
		h ^= v + 0x9e3779b97f4a7c15 + (h << 6) + (h >> 2)
		h *= 0xff51afd7ed558ccd
		h ^= h >> 33
	}
	return h
}

// Fold applies one command to a state.
func (s *FSMState) Fold(index, term, payload uint64) {
	s.LastIdx, s.LastTerm = index, term
	s.Count++
	s.Hash = mix(s.Hash, index, term, payload)
	s.Payloads = append(s.Payloads, payload)
	s.Indexes = append(s.Indexes, index)
}

// Payload encoding of commands: 8 bytes big endian payload id (+ padding).
func EncodePayload(id uint64, pad int) []byte {
	b := make([]byte, 8+pad)
	binary.BigEndian.PutUint64(b, id)
	return b
}

func DecodePayload(b []byte) uint64 {
	if len(b) < 8 {
		return 0
	}
	return binary.BigEndian.Uint64(b)
}

// ApplyResult is what FSM.Apply returns (and Response() must hand back).
type ApplyResult struct {
	Index   uint64
	Payload uint64
	Hash    uint64
	Srv     string
	Gen     int
}

type RecFSM struct {
	in    *Instance
	State FSMState // guarded by W.Mu
	Calls int
	// BatchOlder[i] is set when entry i was handed over in one ApplyBatch call
	// behind a command of an older term (guarded by W.Mu)
	BatchOlder map[uint64]bool
}

func newRecFSM(in *Instance) *RecFSM { return &RecFSM{in: in} }

type fsmPlain struct{ *RecFSM }
type fsmBatch struct{ *RecFSM }
type fsmConf struct{ *RecFSM }
type fsmBatchConf struct{ *RecFSM }

func (f fsmBatch) ApplyBatch(ls []*raft.Log) []interface{}     { return f.applyBatch(ls) }
func (f fsmBatchConf) ApplyBatch(ls []*raft.Log) []interface{} { return f.applyBatch(ls) }
func (f fsmConf) StoreConfiguration(i uint64, c raft.Configuration) {
	f.storeConfiguration(i, c)
}
func (f fsmBatchConf) StoreConfiguration(i uint64, c raft.Configuration) {
	f.storeConfiguration(i, c)
}

func (f *RecFSM) iface() raft.FSM {
	switch {
	case f.in.Opts.Batching && f.in.Opts.ConfStore:
		return fsmBatchConf{f}
	case f.in.Opts.Batching:
		return fsmBatch{f}
	case f.in.Opts.ConfStore:
		return fsmConf{f}
	}
	return fsmPlain{f}
}

func (f *RecFSM) delay() time.Duration {
	if fn := f.in.Opts.ApplyDelayFn; fn != nil {
		return fn()
	}
	return f.in.Opts.ApplyDelay
}

func (f *RecFSM) Apply(l *raft.Log) interface{} {
	if d := f.delay(); d > 0 {
		time.Sleep(d)
	}
	return f.applyOne(l, "Apply")
}

func (f *RecFSM) applyOne(l *raft.Log, how string) interface{} {
	w := f.in.W
	w.Mu.Lock()
	defer w.Mu.Unlock()
	f.Calls++
	if l.Type != raft.LogCommand {
		// BatchingFSM also receives configuration entries
		w.ev(Event{Kind: "fsm", Srv: f.in.ID(), Gen: f.in.Gen, S: how + ":" + typeLetter(l.Type), A: l.Index, Term: l.Term})
		if !f.in.dead {
			w.O.onFSMEntry(f.in, l, false)
		}
		return nil
	}
	p := DecodePayload(l.Data)
	f.State.Fold(l.Index, l.Term, p)
	w.ev(Event{Kind: "fsm", Srv: f.in.ID(), Gen: f.in.Gen, S: how, A: l.Index, Term: l.Term, B: p})
	if !f.in.dead {
		w.O.onFSMEntry(f.in, l, true)
	}
	return &ApplyResult{Index: l.Index, Payload: p, Hash: f.State.Hash, Srv: f.in.ID(), Gen: f.in.Gen}
}

func (f *RecFSM) applyBatch(ls []*raft.Log) []interface{} {
	if d := f.delay(); d > 0 {
		time.Sleep(d)
	}
	out := make([]interface{}, len(ls))
	for i, l := range ls {
		out[i] = f.applyOne(l, "ApplyBatch")
	}
	f.in.W.Mu.Lock()
	for i, l := range ls {
		if i > 0 && l.Term > ls[0].Term && ls[0].Type == raft.LogCommand {
			if f.BatchOlder == nil {
				f.BatchOlder = map[uint64]bool{}
			}
			f.BatchOlder[l.Index] = true
		}
	}
	f.in.W.Mu.Unlock()
	return out
}

func (f *RecFSM) storeConfiguration(index uint64, c raft.Configuration) {
	w := f.in.W
	w.Mu.Lock()
	defer w.Mu.Unlock()
	w.ev(Event{Kind: "fsm", Srv: f.in.ID(), Gen: f.in.Gen, S: "StoreConfiguration", A: index})
	if !f.in.dead {
		w.O.onFSMConfig(f.in, index, c)
	}
}

type fsmSnapshot struct {
	f     *RecFSM
	state FSMState
}

func (f *RecFSM) Snapshot() (raft.FSMSnapshot, error) {
	w := f.in.W
	w.Mu.Lock()
	defer w.Mu.Unlock()
	return &fsmSnapshot{f: f, state: f.State.Clone()}, nil
}

func (s *fsmSnapshot) Persist(sink raft.SnapshotSink) error {
	if d := s.f.in.Opts.PersistDelay; d > 0 {
		time.Sleep(d)
	}
	b, _ := json.Marshal(s.state)
	if _, err := sink.Write(b); err != nil {
		_ = sink.Cancel()
		return err
	}
	return sink.Close()
}

func (s *fsmSnapshot) Release() {}

func (f *RecFSM) Restore(rc io.ReadCloser) error {
	defer rc.Close()
	if d := f.delay(); d > 0 {
		time.Sleep(d) // a slow state machine is slow to restore as well
	}
	b, err := io.ReadAll(rc)
	if err != nil {
		return err
	}
	var st FSMState
	if err := json.Unmarshal(b, &st); err != nil {
		return fmt.Errorf("corrupt snapshot: %v", err)
	}
	w := f.in.W
	w.Mu.Lock()
	defer w.Mu.Unlock()
	f.Calls++
	f.State = st
	w.ev(Event{Kind: "fsm", Srv: f.in.ID(), Gen: f.in.Gen, S: "Restore", A: st.LastIdx, B: st.Hash, C: st.Count})
	if !f.in.dead {
		w.O.onFSMRestore(f.in, st)
	}
	return nil
}

// GetState returns a copy of the FSM state.
func (f *RecFSM) GetState() FSMState {
	f.in.W.Mu.Lock()
	defer f.in.W.Mu.Unlock()
	return f.State.Clone()
}

func EncodeState(st FSMState) []byte {
	b, _ := json.Marshal(st)
	return b
}
