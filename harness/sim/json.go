package sim

import "encoding/json"

func jsonUnmarshalImpl(b []byte, v any) error { return json.Unmarshal(b, v) }
