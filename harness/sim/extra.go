package sim

import (
	"fmt"
	"strings"

	"github.com/hashicorp/raft"
)

func (w *World) ViolateLocked(prop, rule, sig, format string, args ...any) {
	w.violate(prop, rule, sig, format, args...)
}

func (w *World) EvLocked(e Event) { w.ev(e) }

func (in *Instance) DeadLocked() bool { return in.dead }

// Disk returns the disk this incarnation writes to (caller holds W.Mu or the
// bubble is quiescent).
func (in *Instance) DiskLocked() *Disk { return in.disk }

// Bootstrap writes the initial configuration into a server's disk the way
// raft.BootstrapCluster does (term 1, configuration entry at index 1).
func (w *World) Bootstrap(id string, cfg raft.Configuration) {
	w.Mu.Lock()
	defer w.Mu.Unlock()
	d := w.Servers[id].Disk
	d.KVInt["CurrentTerm"] = 1
	l := &raft.Log{Index: 1, Term: 1, Type: raft.LogConfiguration, Data: raft.EncodeConfiguration(cfg)}
	d.Logs[1] = l
	w.Servers[id].MaxTermSeen = 1
	w.O.entries[idxTerm{1, 1}] = entryID{Hash: contentHash(l), Type: l.Type}
	w.O.registerConfig(1, 1, cfg)
	w.O.bootstrapped = true
}

// ---------------------------------------------------------------------------
// accessors used by the engines (caller holds W.Mu)

func (o *Oracles) MaxCommittedCmd() uint64 {
	for i := len(o.agreed) - 1; i >= 0; i-- {
		if !o.agreed[i].Restore {
			return o.agreed[i].Index
		}
	}
	return 0
}

func (o *Oracles) MaxCommitted() uint64 { return o.maxCommit }

type CommittedEntry struct {
	Index, Term, Payload uint64
	Type                 raft.LogType
	Src                  string
}

func (o *Oracles) Committed(index uint64) *CommittedEntry {
	ce, ok := o.committed[index]
	if !ok {
		return nil
	}
	return &CommittedEntry{Index: ce.Index, Term: ce.Term, Payload: ce.Payload, Type: ce.Type, Src: ce.Src}
}

// CommitAck registers the entry at index (as held by the acknowledging
// server) as committed.
func (o *Oracles) CommitAck(in *Instance, index uint64, src string) {
	if l, ok := in.disk.Logs[index]; ok {
		o.commit(index, l.Term, l.Type, contentHash(l), DecodePayload(l.Data), src)
		return
	}
	if _, ok := o.committed[index]; !ok && in.disk.SnapIndex() < index {
		o.w.violate("C03", "R1", "C03/R1/acknowledged-entry-not-in-acknowledging-log",
			"%s acknowledged index %d (%s) but neither its log nor its snapshot holds it: %s", in.ID(), index, src, in.disk.LogString())
	}
}

func (o *Oracles) StoredAt(payload uint64) uint64 { return o.payloadAt[payload] }

func (o *Oracles) WatchPayload(payload uint64, why string) { o.watched[payload] = why }

func (o *Oracles) notePayloads(in *Instance, op *DiskOp) {
	for _, l := range op.Logs {
		if l.Type != raft.LogCommand {
			continue
		}
		p := DecodePayload(l.Data)
		if p == 0 {
			continue
		}
		if at, ok := o.payloadAt[p]; ok && at != l.Index {
			o.w.violate("C08", "R1", "C08/R1/command-stored-at-two-indexes", "payload %d stored at index %d on %s (site %s) and earlier at index %d", p, l.Index, in.ID(), op.Site, at)
		}
		o.payloadAt[p] = l.Index
		if why, ok := o.watched[p]; ok {
			o.w.violate("C08", "R3", "C08/R3/definitely-failed-command-was-stored", "payload %d whose call returned %q is stored at index %d on %s (site %s)", p, why, l.Index, in.ID(), op.Site)
		}
	}
}

// Ack is a successful or failed AppendEntries/heartbeat/InstallSnapshot
// response delivered to a leader.
type Ack struct {
	Peer     string
	Term     uint64
	Success  bool
	SentSeq  int // when the leader sent the request
	AckSeq   int // when the follower produced the response
	RecvSeq  int // when the leader received it
	RespTerm uint64
	Kind     MsgKind
}

func (o *Oracles) Acks(leader string) []Ack { return o.acks[leader] }

type LeaderObs struct {
	Srv  string
	Term uint64
	Seq  int
	T    int64
}

func (o *Oracles) Leaders() []LeaderObs { return o.leaderObs }

func (o *Oracles) String() string {
	return fmt.Sprintf("committed=%d agreed=%d configs=%d", len(o.committed), len(o.agreed), len(o.configs))
}

// ReleaseHeld makes every held message deliverable now (quiet phase). Caller holds W.Mu.
func (n *Net) ReleaseHeld() {
	for _, m := range n.reqQ {
		if m.ReadyAt < 1<<59 {
			m.ReadyAt = 0
		}
	}
	for _, m := range n.respQ {
		m.ReadyAt = 0
	}
}

// ExpectUserSnapshot tells the oracles that a snapshot with this state hash is
// an operator-supplied one (user Restore).
func (o *Oracles) ExpectUserSnapshot(hash uint64) { o.userSnaps[hash] = 0 }

// UserSnapshotWrittenAt returns the burned index at which an operator-supplied
// state (by hash) was written as a snapshot, 0 if it never was.
func (o *Oracles) UserSnapshotWrittenAt(hash uint64) uint64 { return o.userSnaps[hash] }

// UserSnapshotWrittenMs: the virtual instant of that write.
func (o *Oracles) UserSnapshotWrittenMs(hash uint64) int64 { return o.userSnapMs[hash] }

// LeaderOf returns the server observed as leader of a term ("" if none).
func (o *Oracles) LeaderOf(term uint64) string { return o.leaderOf[term] }

// TimeoutNowsTo counts TimeoutNow requests delivered to a server since a time.
func (o *Oracles) TimeoutNowsTo(id string, sinceMs int64) int {
	n := 0
	for _, t := range o.timeoutNows[id] {
		if t >= sinceMs {
			n++
		}
	}
	return n
}

// RestoreFloor is the highest burned index of a user Restore so far.
func (o *Oracles) RestoreFloor() uint64 { return o.restoreFloor }

// RestoreConfirmed: a user Restore on this server returned nil (its state is
// now the agreed one).
func (o *Oracles) RestoreConfirmed(id string) {
	if o.unconfirmedRestores[id] > 0 {
		o.unconfirmedRestores[id]--
	}
}

// Tainted reports whether some server took a user-restore snapshot whose
// Restore call has not returned nil: the documented hazard of Restore (the
// leader replaces its state before it knows that it can commit) - nothing is
// claimed about such a run by any property.
func (o *Oracles) Tainted() bool {
	for _, n := range o.unconfirmedRestores {
		if n > 0 {
			return true
		}
	}
	return false
}

// CheckLatestCfg (C07): the configuration a server acts on (GetConfiguration)
// must be one it durably holds: the configuration of an entry in its log or of
// one of its snapshots (or the empty one before bootstrap). Caller holds Mu and
// calls at a quiescent cut. Returns false when the result was served from cache.
func (o *Oracles) CheckLatestCfg(in *Instance, cfg raft.Configuration) bool {
	if len(cfg.Servers) == 0 || in.installing {
		// (half-way through InstallSnapshot the snapshot is durable and the
		// handler has not switched to its configuration yet; nothing else runs)
		return false
	}
	key := cfgString(cfg)
	if in.cfgOKKey == key && in.cfgOKOps == in.Srv.opCount {
		return false
	}
	d := in.disk
	ok := false
	for _, sn := range d.Snaps {
		if sameCfg(sn.Meta.Configuration, cfg) {
			ok = true
			break
		}
	}
	if !ok {
		for _, l := range d.Logs {
			if l.Type == raft.LogConfiguration && sameCfg(raft.DecodeConfiguration(l.Data), cfg) {
				ok = true
				break
			}
		}
	}
	if !ok {
		o.w.violate("C07", "R3", "C07/R3/latest-configuration-in-no-log-entry-or-snapshot",
			"%s acts on configuration {%s} which is neither in an entry of its log nor in one of its snapshots (it counts a server no stored configuration names); log: %s",
			in.ID(), key, d.LogString())
		return true
	}
	in.cfgOKKey, in.cfgOKOps = key, in.Srv.opCount
	return true
}

// ResetRepeats forgets the repeat counters of transfers to a server (caller
// holds Mu): a follower whose log store is failing reads cannot be expected to
// make progress, repeats towards it are not a loop of raft's making.
func (o *Oracles) ResetRepeats(to string) {
	for k, rr := range o.snapRepeat {
		if strings.HasSuffix(k, ">"+to) {
			rr.n, rr.qn = 0, 0
		}
	}
	for k, rr := range o.aeRepeat {
		if strings.HasSuffix(k, ">"+to) {
			rr.n, rr.qn = 0, 0
		}
	}
}
