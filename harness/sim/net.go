package sim

import (
	"bytes"
	"errors"
	"fmt"
	"io"
	"time"

	"github.com/hashicorp/raft"
)

type MsgKind string

const (
	KAppend    MsgKind = "AE"
	KHeartbeat MsgKind = "HB"
	KVote      MsgKind = "RV"
	KPreVote   MsgKind = "PV"
	KSnapshot  MsgKind = "IS"
	KTimeout   MsgKind = "TN"
)

type msgState int

const (
	msPendingReq msgState = iota
	msInHandler
	msPendingResp
	msDone
	msFailed
)

// Msg is one RPC exchange travelling through the simulated network.
type Msg struct {
	ID      int
	Kind    MsgKind
	From    string
	FromGen int
	To      string
	Req     any
	Resp    any
	Err     error
	Data    []byte
	Term    uint64
	Pipe    *Pipeline
	fut     *appendFut

	state       msgState
	SentAt      int64 // virtual ms
	SentSeq     int
	ProducedSeq int
	Decided     bool
	LatReq      bool // link latency already applied to the request / the response
	LatResp     bool
	ReadyAt     int64 // not deliverable before (request or response, whichever is pending)
	HandledBy   *Instance
	done        chan struct{}
	abandoned   bool
	respOut     any // caller's response struct
	Dup         bool
	Marked      bool // free for the policy: the message has been counted by a macro
	LateCopyMs  int  // set by the policy: when this request is delivered, a copy of it is delivered again that many ms later (a duplicate that lingered in the network)
	Late        bool // this is such a copy
	SlowDone    bool // free for the policy: the response has been slowed down once
}

func (m *Msg) String() string {
	return fmt.Sprintf("#%d %s %s->%s term=%d", m.ID, m.Kind, m.From, m.To, m.Term)
}

// Verdict of the delivery policy for a pending request or response.
type Verdict int

const (
	VDeliver   Verdict = iota
	VHold              // keep pending (policy sets ReadyAt)
	VDrop              // lose it (the caller times out)
	VRefuse            // fail fast (connection refused)
	VDuplicate         // deliver now and deliver a copy again (requests only)
)

type Net struct {
	w          *World
	reqQ       []*Msg
	respQ      []*Msg
	nextID     int
	RPCTimeout time.Duration
	// Policy decides what happens to a pending request (resp=false) or
	// response (resp=true). nil = deliver everything. Called under w.Mu.
	Policy func(m *Msg, resp bool) Verdict
	// Scripted: server ids whose requests are not delivered by Step but left
	// for the harness (solo engine: model peers).
	Scripted  map[string]bool
	Delivered int
	pipes     []*Pipeline
}

func newNet(w *World) *Net {
	return &Net{w: w, RPCTimeout: 100 * time.Millisecond, Scripted: map[string]bool{}}
}

// ---------------------------------------------------------------------------
// deep copies (a wire would serialise)

func copyHeader(h raft.RPCHeader) raft.RPCHeader {
	h.ID = append([]byte(nil), h.ID...)
	h.Addr = append([]byte(nil), h.Addr...)
	return h
}

func CopyReq(req any) any {
	switch r := req.(type) {
	case *raft.AppendEntriesRequest:
		c := *r
		c.RPCHeader = copyHeader(r.RPCHeader)
		c.Leader = append([]byte(nil), r.Leader...)
		c.Entries = make([]*raft.Log, len(r.Entries))
		for i, l := range r.Entries {
			c.Entries[i] = CopyLog(l)
		}
		return &c
	case *raft.RequestVoteRequest:
		c := *r
		c.RPCHeader = copyHeader(r.RPCHeader)
		c.Candidate = append([]byte(nil), r.Candidate...)
		return &c
	case *raft.RequestPreVoteRequest:
		c := *r
		c.RPCHeader = copyHeader(r.RPCHeader)
		return &c
	case *raft.InstallSnapshotRequest:
		c := *r
		c.RPCHeader = copyHeader(r.RPCHeader)
		c.Leader = append([]byte(nil), r.Leader...)
		c.Peers = append([]byte(nil), r.Peers...)
		c.Configuration = append([]byte(nil), r.Configuration...)
		return &c
	case *raft.TimeoutNowRequest:
		c := *r
		c.RPCHeader = copyHeader(r.RPCHeader)
		return &c
	}
	panic(fmt.Sprintf("CopyReq: unknown %T", req))
}

func copyRespInto(dst, src any) {
	switch d := dst.(type) {
	case *raft.AppendEntriesResponse:
		*d = *src.(*raft.AppendEntriesResponse)
	case *raft.RequestVoteResponse:
		*d = *src.(*raft.RequestVoteResponse)
	case *raft.RequestPreVoteResponse:
		*d = *src.(*raft.RequestPreVoteResponse)
	case *raft.InstallSnapshotResponse:
		*d = *src.(*raft.InstallSnapshotResponse)
	case *raft.TimeoutNowResponse:
		*d = *src.(*raft.TimeoutNowResponse)
	default:
		panic(fmt.Sprintf("copyRespInto: unknown %T", dst))
	}
}

func reqTerm(req any) uint64 {
	switch r := req.(type) {
	case *raft.AppendEntriesRequest:
		return r.Term
	case *raft.RequestVoteRequest:
		return r.Term
	case *raft.RequestPreVoteRequest:
		return r.Term
	case *raft.InstallSnapshotRequest:
		return r.Term
	}
	return 0
}

func IsHeartbeat(a *raft.AppendEntriesRequest) bool {
	return a.Term != 0 && a.PrevLogEntry == 0 && a.PrevLogTerm == 0 && len(a.Entries) == 0 && a.LeaderCommitIndex == 0
}

// ---------------------------------------------------------------------------
// Transport (one per incarnation)

type Transport struct {
	w        *World
	in       *Instance
	consumer chan raft.RPC
	hb       func(raft.RPC)
	closed   chan struct{}
	isClosed bool
}

func newTransport(w *World, in *Instance) *Transport {
	return &Transport{w: w, in: in, consumer: make(chan raft.RPC, 16), closed: make(chan struct{})}
}

type noPreVoteTransport struct{ *Transport }

// hide RequestPreVote
func (t *noPreVoteTransport) RequestPreVote() {}

func (t *Transport) Consumer() <-chan raft.RPC     { return t.consumer }
func (t *Transport) LocalAddr() raft.ServerAddress { return t.in.Srv.Addr }
func (t *Transport) EncodePeer(id raft.ServerID, addr raft.ServerAddress) []byte {
	return []byte(addr)
}
func (t *Transport) DecodePeer(b []byte) raft.ServerAddress { return raft.ServerAddress(b) }
func (t *Transport) SetHeartbeatHandler(cb func(raft.RPC)) {
	t.w.Mu.Lock()
	t.hb = cb
	t.w.Mu.Unlock()
}
func (t *Transport) Close() error {
	t.w.Mu.Lock()
	if !t.isClosed {
		t.isClosed = true
		close(t.closed)
	}
	t.w.Mu.Unlock()
	return nil
}

var ErrSimTimeout = errors.New("sim: rpc timed out")
var ErrSimRefused = errors.New("sim: connection refused")
var ErrSimClosed = errors.New("sim: transport closed")

func (t *Transport) call(kind MsgKind, target raft.ServerAddress, req any, respOut any, data []byte, timeout time.Duration) error {
	n := t.w.Net
	to := t.w.ServerByAddr(target)
	if to == nil {
		return fmt.Errorf("sim: unknown address %q", target)
	}
	m := &Msg{Kind: kind, From: t.in.ID(), FromGen: t.in.Gen, To: string(to.ID), Req: CopyReq(req), Data: data, Term: reqTerm(req),
		done: make(chan struct{}), respOut: respOut}
	t.w.Mu.Lock()
	if t.in.dead {
		t.w.Mu.Unlock()
		// a crashed process sends nothing; its goroutines are parked until reaped
		select {
		case <-t.closed:
		case <-time.After(time.Millisecond):
		}
		return errCrashed
	}
	n.nextID++
	m.ID = n.nextID
	m.SentAt = t.w.Now()
	m.SentSeq = t.w.Seq
	n.reqQ = append(n.reqQ, m)
	t.w.Mu.Unlock()

	select {
	case <-m.done:
	case <-time.After(timeout):
		t.w.Mu.Lock()
		m.abandoned = true
		t.w.Mu.Unlock()
		return ErrSimTimeout
	case <-t.in.deadCh:
		t.w.Mu.Lock()
		m.abandoned = true
		t.w.Mu.Unlock()
		return errCrashed
	case <-t.closed:
		t.w.Mu.Lock()
		m.abandoned = true
		t.w.Mu.Unlock()
		return ErrSimClosed
	}
	if m.Err != nil {
		return m.Err
	}
	copyRespInto(respOut, m.Resp)
	return nil
}

func (t *Transport) AppendEntries(id raft.ServerID, target raft.ServerAddress, args *raft.AppendEntriesRequest, resp *raft.AppendEntriesResponse) error {
	k := KAppend
	if IsHeartbeat(args) {
		k = KHeartbeat
	}
	return t.call(k, target, args, resp, nil, t.w.Net.RPCTimeout)
}

func (t *Transport) RequestVote(id raft.ServerID, target raft.ServerAddress, args *raft.RequestVoteRequest, resp *raft.RequestVoteResponse) error {
	return t.call(KVote, target, args, resp, nil, t.w.Net.RPCTimeout)
}

func (t *Transport) RequestPreVote(id raft.ServerID, target raft.ServerAddress, args *raft.RequestPreVoteRequest, resp *raft.RequestPreVoteResponse) error {
	return t.call(KPreVote, target, args, resp, nil, t.w.Net.RPCTimeout)
}

func (t *Transport) InstallSnapshot(id raft.ServerID, target raft.ServerAddress, args *raft.InstallSnapshotRequest, resp *raft.InstallSnapshotResponse, data io.Reader) error {
	b, err := io.ReadAll(data)
	if err != nil {
		return err
	}
	return t.call(KSnapshot, target, args, resp, b, 10*t.w.Net.RPCTimeout)
}

func (t *Transport) TimeoutNow(id raft.ServerID, target raft.ServerAddress, args *raft.TimeoutNowRequest, resp *raft.TimeoutNowResponse) error {
	return t.call(KTimeout, target, args, resp, nil, t.w.Net.RPCTimeout)
}

// ---------------------------------------------------------------------------
// Pipeline

type appendFut struct {
	start time.Time
	req   *raft.AppendEntriesRequest
	resp  *raft.AppendEntriesResponse
	err   error
	ch    chan struct{}
}

func (f *appendFut) Error() error                          { <-f.ch; return f.err }
func (f *appendFut) Start() time.Time                      { return f.start }
func (f *appendFut) Request() *raft.AppendEntriesRequest   { return f.req }
func (f *appendFut) Response() *raft.AppendEntriesResponse { return f.resp }

type Pipeline struct {
	t        *Transport
	to       string
	doneCh   chan raft.AppendFuture
	inflight []*Msg
	closed   bool
	closeCh  chan struct{}
	slots    chan struct{}
}

func (t *Transport) AppendEntriesPipeline(id raft.ServerID, target raft.ServerAddress) (raft.AppendPipeline, error) {
	if !t.in.Opts.Pipeline {
		return nil, raft.ErrPipelineReplicationNotSupported
	}
	to := t.w.ServerByAddr(target)
	if to == nil {
		return nil, fmt.Errorf("sim: unknown address %q", target)
	}
	p := &Pipeline{t: t, to: string(to.ID), doneCh: make(chan raft.AppendFuture, 128), closeCh: make(chan struct{}), slots: make(chan struct{}, 16)}
	t.w.Mu.Lock()
	t.w.Net.pipes = append(t.w.Net.pipes, p)
	t.w.Mu.Unlock()
	return p, nil
}

func (p *Pipeline) AppendEntries(args *raft.AppendEntriesRequest, resp *raft.AppendEntriesResponse) (raft.AppendFuture, error) {
	select {
	case p.slots <- struct{}{}:
	case <-p.closeCh:
		return nil, raft.ErrPipelineShutdown
	case <-p.t.closed:
		return nil, raft.ErrPipelineShutdown
	}
	w := p.t.w
	f := &appendFut{start: time.Now(), req: args, resp: resp, ch: make(chan struct{})}
	m := &Msg{Kind: KAppend, From: p.t.in.ID(), FromGen: p.t.in.Gen, To: p.to, Req: CopyReq(args), Term: args.Term, Pipe: p, fut: f, done: make(chan struct{})}
	w.Mu.Lock()
	if p.closed || p.t.in.dead {
		w.Mu.Unlock()
		<-p.slots
		return nil, raft.ErrPipelineShutdown
	}
	n := w.Net
	n.nextID++
	m.ID = n.nextID
	m.SentAt = w.Now()
	m.SentSeq = w.Seq
	n.reqQ = append(n.reqQ, m)
	p.inflight = append(p.inflight, m)
	w.Mu.Unlock()
	return f, nil
}

func (p *Pipeline) Consumer() <-chan raft.AppendFuture { return p.doneCh }

func (p *Pipeline) Close() error {
	p.t.w.Mu.Lock()
	p.failLocked(raft.ErrPipelineShutdown, false)
	p.t.w.Mu.Unlock()
	return nil
}

// failLocked breaks the pipeline: every in-flight future completes with err
// and a zero response (what InmemTransport does on a time-out).
func (p *Pipeline) failLocked(err error, deliver bool) {
	if p.closed {
		return
	}
	p.closed = true
	close(p.closeCh)
	for _, m := range p.inflight {
		m.state = msFailed
		m.fut.err = err
		close(m.fut.ch)
		if deliver {
			select {
			case p.doneCh <- m.fut:
			default:
			}
		}
	}
	p.inflight = nil
}

// ---------------------------------------------------------------------------
// Stepping

// Step lets the network act on everything that is pending right now. It
// returns the number of deliveries made (0 = network is idle at this instant).
// Must be called by the harness goroutine when the bubble is quiescent.
func (n *Net) Step() int {
	w := n.w
	w.Mu.Lock()
	now := w.Now()
	acts := 0
	var starts []func()

	// responses first (they are older)
	rq := n.respQ
	n.respQ = nil
	for _, m := range rq {
		if m.state != msPendingResp {
			continue
		}
		if m.abandoned && m.Pipe == nil {
			m.state = msFailed
			continue
		}
		if m.Pipe != nil && (len(m.Pipe.inflight) == 0 || m.Pipe.inflight[0] != m) {
			if m.Pipe.closed {
				continue
			}
			n.respQ = append(n.respQ, m) // wait for in-order delivery
			continue
		}
		v := VDeliver
		if m.ReadyAt > now {
			v = VHold
		} else if n.Policy != nil {
			v = n.Policy(m, true)
		}
		switch v {
		case VHold:
			n.respQ = append(n.respQ, m)
		case VDrop, VRefuse:
			m.state = msFailed
			w.ev(Event{Kind: "drop-resp", Srv: m.To, Peer: m.From, S: string(m.Kind), A: uint64(m.ID)})
			if m.Pipe != nil {
				m.Pipe.failLocked(ErrSimTimeout, true)
			}
		default:
			n.completeLocked(m)
			acts++
		}
	}

	q := n.reqQ
	n.reqQ = nil
	for _, m := range q {
		if m.state != msPendingReq {
			continue
		}
		if m.abandoned {
			m.state = msFailed
			continue
		}
		if n.Scripted[m.To] {
			n.reqQ = append(n.reqQ, m)
			continue
		}
		if m.Pipe != nil && m.Pipe.closed {
			continue
		}
		if m.Pipe != nil && now-m.SentAt > int64(n.RPCTimeout/time.Millisecond) {
			m.Pipe.failLocked(ErrSimTimeout, true)
			continue
		}
		v := VDeliver
		if m.ReadyAt > now {
			v = VHold
		} else if n.Policy != nil {
			v = n.Policy(m, false)
		}
		switch v {
		case VHold:
			n.reqQ = append(n.reqQ, m)
		case VDrop:
			m.state = msFailed
			w.ev(Event{Kind: "drop-req", Srv: m.From, Peer: m.To, S: string(m.Kind), A: uint64(m.ID), Term: m.Term})
			if m.Pipe != nil {
				// the caller notices through the pipeline time-out
				m.state = msPendingReq
				m.ReadyAt = 1 << 60
				n.reqQ = append(n.reqQ, m)
			}
		case VRefuse:
			n.failLocked(m, ErrSimRefused)
		default:
			target := w.Servers[m.To]
			if target == nil || target.Inst == nil || target.Inst.dead || target.Inst.R == nil || target.Inst.R.State() == raft.Shutdown {
				n.failLocked(m, ErrSimRefused)
				continue
			}
			if f := n.startDelivery(m, target.Inst); f != nil {
				starts = append(starts, f)
			}
			if m.LateCopyMs > 0 && m.Pipe == nil && !m.Dup {
				d := &Msg{ID: m.ID, Kind: m.Kind, From: m.From, FromGen: m.FromGen, To: m.To, Req: CopyReq(m.Req), Data: m.Data, Term: m.Term,
					done: make(chan struct{}), Dup: true, Late: true, Decided: true, LatReq: true, LatResp: true, SentAt: m.SentAt, ReadyAt: now + int64(m.LateCopyMs)}
				n.reqQ = append(n.reqQ, d)
				m.LateCopyMs = 0
			}
			if v == VDuplicate && m.Pipe == nil && !m.Dup {
				d := &Msg{ID: m.ID, Kind: m.Kind, From: m.From, FromGen: m.FromGen, To: m.To, Req: CopyReq(m.Req), Data: m.Data, Term: m.Term,
					done: make(chan struct{}), Dup: true, abandoned: false, SentAt: m.SentAt}
				if f := n.startDelivery(d, target.Inst); f != nil {
					starts = append(starts, f)
				}
			}
			acts++
		}
	}
	// pipelined exchanges that time out (request held, handler stuck, response held)
	live := n.pipes[:0]
	for _, p := range n.pipes {
		if p.closed {
			continue
		}
		if len(p.inflight) > 0 && now-p.inflight[0].SentAt > int64(n.RPCTimeout/time.Millisecond) {
			p.failLocked(ErrSimTimeout, true)
			continue
		}
		live = append(live, p)
	}
	n.pipes = live
	w.Mu.Unlock()
	for _, f := range starts {
		go f()
	}
	n.Delivered += acts
	return acts
}

// Idle reports whether nothing is pending (ignoring scripted targets and
// held messages).
func (n *Net) PendingCount() int {
	n.w.Mu.Lock()
	defer n.w.Mu.Unlock()
	return len(n.reqQ) + len(n.respQ)
}

func (n *Net) failLocked(m *Msg, err error) {
	m.state = msFailed
	m.Err = err
	n.w.ev(Event{Kind: "refuse", Srv: m.From, Peer: m.To, S: string(m.Kind), A: uint64(m.ID), Term: m.Term})
	if m.Pipe != nil {
		m.Pipe.failLocked(err, true)
		return
	}
	close(m.done)
}

// startDelivery hands the request to the target incarnation. Caller holds w.Mu;
// the returned function must be started as a goroutine after unlocking.
func (n *Net) startDelivery(m *Msg, target *Instance) func() {
	w := n.w
	m.state = msInHandler
	m.HandledBy = target
	w.ev(reqEvent(m))
	w.O.onRequest(m, target)
	respCh := make(chan raft.RPCResponse, 1)
	rpc := raft.RPC{Command: CopyReq(m.Req), RespChan: respCh}
	if m.Kind == KSnapshot {
		rpc.Reader = bytes.NewReader(m.Data)
	}
	hb := target.Trans.hb
	fast := target.Opts.HBFast && m.Kind == KHeartbeat && hb != nil
	return func() {
		if fast {
			hb(rpc)
		} else {
			select {
			case target.Trans.consumer <- rpc:
			case <-target.Trans.closed:
				return
			case <-target.deadCh:
				return
			}
		}
		select {
		case r := <-respCh:
			w.Mu.Lock()
			if m.state == msInHandler && !target.dead {
				m.Resp, m.Err = r.Response, r.Error
				m.state = msPendingResp
				w.O.onResponseProduced(m, target)
				if !m.Dup {
					n.respQ = append(n.respQ, m)
				}
			}
			w.Mu.Unlock()
		case <-target.Trans.closed:
		case <-target.deadCh:
		}
	}
}

// completeLocked delivers the response to the caller.
func (n *Net) completeLocked(m *Msg) {
	w := n.w
	m.state = msDone
	src := w.Servers[m.From]
	alive := src != nil && src.Inst != nil && src.Inst.Gen == m.FromGen && !src.Inst.dead
	w.ev(respEvent(m))
	if alive {
		w.O.onResponseDelivered(m)
	}
	if m.Pipe != nil {
		p := m.Pipe
		p.inflight = p.inflight[1:]
		if m.Err == nil {
			*m.fut.resp = *(m.Resp.(*raft.AppendEntriesResponse))
		}
		m.fut.err = m.Err
		close(m.fut.ch)
		select {
		case p.doneCh <- m.fut:
		default:
			p.failLocked(ErrSimTimeout, false)
		}
		select {
		case <-p.slots:
		default:
		}
		return
	}
	close(m.done)
}

func reqEvent(m *Msg) Event {
	e := Event{Kind: "req", Srv: m.From, Gen: m.FromGen, Peer: m.To, S: string(m.Kind), Term: m.Term}
	switch r := m.Req.(type) {
	case *raft.AppendEntriesRequest:
		e.A, e.B, e.C = r.PrevLogEntry, uint64(len(r.Entries)), r.LeaderCommitIndex
	case *raft.RequestVoteRequest:
		e.A, e.B = r.LastLogIndex, r.LastLogTerm
		e.OK = r.LeadershipTransfer
	case *raft.RequestPreVoteRequest:
		e.A, e.B = r.LastLogIndex, r.LastLogTerm
	case *raft.InstallSnapshotRequest:
		e.A, e.B = r.LastLogIndex, r.LastLogTerm
	}
	if m.Dup {
		e.S += "+dup"
	}
	return e
}

func respEvent(m *Msg) Event {
	e := Event{Kind: "resp", Srv: m.To, Peer: m.From, S: string(m.Kind), A: uint64(m.ID)}
	if m.Err != nil {
		e.S += " err=" + m.Err.Error()
		return e
	}
	switch r := m.Resp.(type) {
	case *raft.AppendEntriesResponse:
		e.Term, e.OK, e.B = r.Term, r.Success, r.LastLog
	case *raft.RequestVoteResponse:
		e.Term, e.OK = r.Term, r.Granted
	case *raft.RequestPreVoteResponse:
		e.Term, e.OK = r.Term, r.Granted
	case *raft.InstallSnapshotResponse:
		e.Term, e.OK = r.Term, r.Success
	}
	return e
}

// ---------------------------------------------------------------------------
// Scripted peers (solo engine)

// TakeScripted removes and returns the pending requests addressed to scripted
// (model) peers.
func (n *Net) TakeScripted() []*Msg {
	n.w.Mu.Lock()
	defer n.w.Mu.Unlock()
	var out, keep []*Msg
	for _, m := range n.reqQ {
		if n.Scripted[m.To] && m.state == msPendingReq && !m.abandoned {
			out = append(out, m)
		} else if m.state == msPendingReq && !m.abandoned {
			keep = append(keep, m)
		}
	}
	n.reqQ = keep
	return out
}

// Answer completes a scripted exchange with the model peer's response.
func (n *Net) Answer(m *Msg, resp any, err error) {
	n.w.Mu.Lock()
	defer n.w.Mu.Unlock()
	if m.state != msPendingReq {
		return
	}
	n.w.ev(reqEvent(m))
	m.Resp, m.Err = resp, err
	m.state = msPendingResp
	if m.Pipe != nil {
		if len(m.Pipe.inflight) > 0 && m.Pipe.inflight[0] == m {
			n.completeLocked(m)
		} else {
			n.respQ = append(n.respQ, m)
		}
		return
	}
	n.completeLocked(m)
}

// Lose drops a scripted request (caller will time out).
func (n *Net) Lose(m *Msg) {
	n.w.Mu.Lock()
	defer n.w.Mu.Unlock()
	m.state = msFailed
	if m.Pipe != nil {
		m.Pipe.failLocked(ErrSimTimeout, true)
	}
}

// Inject sends a request straight to a live incarnation (solo engine) and
// returns a channel with the response.
func (n *Net) Inject(target *Instance, kind MsgKind, from string, req any, data []byte) <-chan raft.RPCResponse {
	w := n.w
	respCh := make(chan raft.RPCResponse, 1)
	rpc := raft.RPC{Command: CopyReq(req), RespChan: respCh}
	if kind == KSnapshot {
		rpc.Reader = bytes.NewReader(data)
	}
	m := &Msg{Kind: kind, From: from, To: target.ID(), Req: req, Term: reqTerm(req), Data: data}
	w.Mu.Lock()
	n.nextID++
	m.ID = n.nextID
	w.ev(reqEvent(m))
	w.O.onRequest(m, target)
	w.Mu.Unlock()
	go func() {
		select {
		case target.Trans.consumer <- rpc:
		case <-target.Trans.closed:
		case <-target.deadCh:
		}
	}()
	return respCh
}
