package sim

import (
	"time"
	"bytes"
	"errors"
	"fmt"
	"io"
	"runtime"
	"sort"
	"strings"

	"github.com/hashicorp/raft"
)

// Flavour of the log store a disk presents.
type Flavour int

const (
	Plain          Flavour = iota // gap tolerant (BoltDB / InmemStore semantics)
	Monotonic                     // IsMonotonic()==true: contiguous appends, prefix/suffix deletes only (raft-wal semantics)
	CommitTracking                // plain + CommitTrackingLogStore (staged commit index persisted with the next StoreLogs)
	// CommitTrackingEager: as the in-repo InmemCommitTrackingStore behaves - a
	// staged commit index is visible (and survives a restart) at once
	CommitTrackingEager
)

func (f Flavour) String() string {
	return [...]string{"plain", "monotonic", "committracking", "committracking-eager"}[f]
}

type Snap struct {
	Meta raft.SnapshotMeta
	Data []byte
	Seq  int
	Bad  bool // Open fails (unreadable snapshot)
	// BadOnce: the next Open fails, later ones succeed (a read error at start-up)
	BadOnce bool
}

// Disk is the durable state of one server identity.
type Disk struct {
	Flavour Flavour
	KV      map[string][]byte
	KVInt   map[string]uint64
	Logs    map[uint64]*raft.Log
	Snaps   []*Snap
	Staged  uint64
	Commit  uint64
	Retain  int
	snapSeq int
}

func NewDisk(f Flavour) *Disk {
	return &Disk{Flavour: f, KV: map[string][]byte{}, KVInt: map[string]uint64{}, Logs: map[uint64]*raft.Log{}, Retain: 2}
}

func (d *Disk) Clone() *Disk {
	c := &Disk{Flavour: d.Flavour, KV: map[string][]byte{}, KVInt: map[string]uint64{}, Logs: make(map[uint64]*raft.Log, len(d.Logs)),
		Staged: d.Staged, Commit: d.Commit, Retain: d.Retain, snapSeq: d.snapSeq}
	for k, v := range d.KV {
		c.KV[k] = append([]byte(nil), v...)
	}
	for k, v := range d.KVInt {
		c.KVInt[k] = v
	}
	for k, v := range d.Logs {
		c.Logs[k] = v // entries are immutable once stored
	}
	c.Snaps = append([]*Snap(nil), d.Snaps...)
	return c
}

func (d *Disk) First() uint64 {
	var lo uint64
	for i := range d.Logs {
		if lo == 0 || i < lo {
			lo = i
		}
	}
	return lo
}

func (d *Disk) Last() uint64 {
	var hi uint64
	for i := range d.Logs {
		if i > hi {
			hi = i
		}
	}
	return hi
}

// NewestSnap returns the newest durable snapshot by (term, index, seq).
func (d *Disk) NewestSnap() *Snap {
	var best *Snap
	for _, s := range d.Snaps {
		if best == nil || snapLess(best, s) {
			best = s
		}
	}
	return best
}

// NewestUsableSnap skips snapshots marked unreadable.
func (d *Disk) NewestUsableSnap() *Snap {
	var best *Snap
	for _, s := range d.Snaps {
		if s.Bad {
			continue
		}
		if best == nil || snapLess(best, s) {
			best = s
		}
	}
	return best
}

func snapLess(a, b *Snap) bool {
	if a.Meta.Term != b.Meta.Term {
		return a.Meta.Term < b.Meta.Term
	}
	if a.Meta.Index != b.Meta.Index {
		return a.Meta.Index < b.Meta.Index
	}
	return a.Seq < b.Seq
}

func (d *Disk) SnapIndex() uint64 {
	if s := d.NewestSnap(); s != nil {
		return s.Meta.Index
	}
	return 0
}

// Has reports whether the disk durably holds (index, term): in the log with
// that term, or covered by a snapshot.
func (d *Disk) Has(index, term uint64) bool {
	if l, ok := d.Logs[index]; ok && l.Term == term {
		return true
	}
	return d.SnapIndex() >= index
}

func (d *Disk) Term() uint64 { return d.KVInt["CurrentTerm"] }

func CopyLog(l *raft.Log) *raft.Log {
	c := *l
	c.Data = append([]byte(nil), l.Data...)
	c.Extensions = append([]byte(nil), l.Extensions...)
	return &c
}

func (d *Disk) LogString() string {
	var b strings.Builder
	ks := sortedKeys(d.Logs)
	prev := uint64(0)
	for _, k := range ks {
		if prev != 0 && k != prev+1 {
			b.WriteString(" ..gap.. ")
		}
		l := d.Logs[k]
		fmt.Fprintf(&b, "%d/%d%s ", k, l.Term, typeLetter(l.Type))
		prev = k
	}
	if s := d.NewestSnap(); s != nil {
		fmt.Fprintf(&b, "| snap %d/%d", s.Meta.Index, s.Meta.Term)
	}
	return b.String()
}

func typeLetter(t raft.LogType) string {
	switch t {
	case raft.LogCommand:
		return "c"
	case raft.LogNoop:
		return "n"
	case raft.LogBarrier:
		return "b"
	case raft.LogConfiguration:
		return "C"
	}
	return "?"
}

// ---------------------------------------------------------------------------
// Durable-operation interception

type OpKind string

const (
	OpStoreLogs   OpKind = "StoreLogs"
	OpDeleteRange OpKind = "DeleteRange"
	OpSet         OpKind = "Set"
	OpSetUint64   OpKind = "SetUint64"
	OpSnapClose   OpKind = "SnapClose"
	OpSnapCreate  OpKind = "SnapCreate"
	OpStage       OpKind = "StageCommitIndex"
)

type Decision int

const (
	DoOK Decision = iota
	DoError
	DoCrashBefore
	DoCrashAfter
)

// DiskOp describes one durable operation about to happen.
type DiskOp struct {
	Inst     *Instance
	N        int // ordinal of this durable operation on the instance's server (across incarnations)
	Kind     OpKind
	Site     string // raft function that issued it
	Chain    string // raft call chain, innermost first
	Key      string
	Val      uint64
	Bytes    []byte
	Logs     []*raft.Log
	Min, Max uint64
	Snap     *Snap
}

var ErrInjected = errors.New("sim: injected store error")
var errCrashed = errors.New("sim: server crashed")

// callSite finds the innermost raft function on the stack and the chain of
// raft functions above it (innermost first, "<"-separated).
func callSite() (string, string) {
	var pcs [32]uintptr
	n := runtime.Callers(3, pcs[:])
	frames := runtime.CallersFrames(pcs[:n])
	var chain []string
	for {
		f, more := frames.Next()
		if strings.HasPrefix(f.Function, "github.com/hashicorp/raft.") {
			name := strings.TrimPrefix(f.Function, "github.com/hashicorp/raft.")
			name = strings.TrimPrefix(name, "(*Raft).")
			if i := strings.Index(name, "."); i >= 0 && !strings.HasPrefix(name, "(") {
				name = name[:i]
			}
			if !strings.HasPrefix(name, "(*LogCache)") && !strings.HasPrefix(name, "(*raftState)") && (len(chain) == 0 || chain[len(chain)-1] != name) {
				chain = append(chain, name)
			}
		}
		if !more || len(chain) >= 5 {
			break
		}
	}
	if len(chain) == 0 {
		return "harness", "harness"
	}
	return chain[0], strings.Join(chain, "<")
}

// durable runs one durable operation of inst through the fault plan and the
// store-time oracles. apply mutates the disk given to it.
func (in *Instance) durable(op *DiskOp, apply func(d *Disk) error) error {
	w := in.W
	op.Inst = in
	op.Site, op.Chain = callSite()
	w.Mu.Lock()
	defer w.Mu.Unlock()
	if in.dead {
		// writes of a crashed incarnation go to its orphaned disk copy
		return apply(in.disk)
	}
	in.Srv.opCount++
	op.N = in.Srv.opCount
	dec := DoOK
	if w.FaultPlan != nil {
		dec = w.FaultPlan(op)
	}
	seq := w.ev(Event{Kind: "op", Srv: string(in.Srv.ID), Gen: in.Gen, S: string(op.Kind) + "@" + op.Site, A: uint64(op.N), B: uint64(dec), C: opArg(op)})
	_ = seq
	switch dec {
	case DoError:
		return ErrInjected
	case DoCrashBefore:
		in.crashLocked("before " + string(op.Kind) + "@" + op.Site)
		return apply(in.disk)
	}
	w.O.beforeOp(op)
	err := apply(in.disk)
	if err == nil {
		w.O.afterOp(op)
	}
	if dec == DoCrashAfter {
		in.crashLocked("after " + string(op.Kind) + "@" + op.Site)
	}
	return err
}

func opArg(op *DiskOp) uint64 {
	switch op.Kind {
	case OpStoreLogs:
		if len(op.Logs) > 0 {
			return op.Logs[0].Index
		}
	case OpDeleteRange:
		return op.Min
	case OpSetUint64:
		return op.Val
	}
	return 0
}

// crashLocked freezes the server's durable state at this instant: the
// incarnation keeps running against an orphaned copy until the harness reaps
// it. Caller holds w.Mu.
func (in *Instance) crashLocked(why string) {
	if in.dead {
		return
	}
	in.dead = true
	in.disk = in.Srv.Disk.Clone()
	in.W.ev(Event{Kind: "crash", Srv: string(in.Srv.ID), Gen: in.Gen, S: why})
	in.W.O.onCrash(in)
	close(in.deadCh)
}

// ---------------------------------------------------------------------------
// LogStore

type logStore struct{ in *Instance }

func (s *logStore) FirstIndex() (uint64, error) {
	s.in.W.Mu.Lock()
	defer s.in.W.Mu.Unlock()
	return s.in.disk.First(), nil
}

func (s *logStore) LastIndex() (uint64, error) {
	s.in.W.Mu.Lock()
	defer s.in.W.Mu.Unlock()
	return s.in.disk.Last(), nil
}

func (s *logStore) GetLog(index uint64, out *raft.Log) error {
	s.in.W.Mu.Lock()
	defer s.in.W.Mu.Unlock()
	if w := s.in.W; w.ReadFault != nil && !s.in.dead && w.ReadFaultActive != nil && w.ReadFaultActive(s.in) {
		// read errors are injected only where raft handles one (it answers
		// the RPC negatively or retries): the AppendEntries handler and the
		// leader's request builder
		if site, _ := callSite(); site == "appendEntries" || site == "setPreviousLog" || site == "setNewLogs" {
			if w.ReadFault(s.in, site, index) {
				w.ev(Event{Kind: "readfault", Srv: s.in.ID(), Gen: s.in.Gen, S: site, A: index})
				return ErrInjected
			}
		}
	}
	l, ok := s.in.disk.Logs[index]
	if !ok {
		return raft.ErrLogNotFound
	}
	*out = *CopyLog(l)
	return nil
}

func (s *logStore) StoreLog(l *raft.Log) error { return s.StoreLogs([]*raft.Log{l}) }

func (s *logStore) StoreLogs(logs []*raft.Log) error {
	if fn := s.in.Opts.StoreDelayFn; fn != nil {
		if d := fn(); d > 0 {
			time.Sleep(d) // a slow disk: the calling thread is held, everything else goes on
		}
	}
	cp := make([]*raft.Log, len(logs))
	for i, l := range logs {
		cp[i] = CopyLog(l)
	}
	return s.in.durable(&DiskOp{Kind: OpStoreLogs, Logs: cp}, func(d *Disk) error {
		if d.Flavour == Monotonic && len(cp) > 0 {
			if last := d.Last(); last != 0 && cp[0].Index != last+1 {
				return fmt.Errorf("monotonic log store: non-contiguous append at %d, last index %d", cp[0].Index, last)
			}
			for i := 1; i < len(cp); i++ {
				if cp[i].Index != cp[i-1].Index+1 {
					return fmt.Errorf("monotonic log store: batch not contiguous")
				}
			}
		}
		for _, l := range cp {
			d.Logs[l.Index] = l
		}
		if (d.Flavour == CommitTracking || d.Flavour == CommitTrackingEager) && len(cp) > 0 {
			d.Commit = d.Staged
		}
		return nil
	})
}

func (s *logStore) DeleteRange(min, max uint64) error {
	return s.in.durable(&DiskOp{Kind: OpDeleteRange, Min: min, Max: max}, func(d *Disk) error {
		if d.Flavour == Monotonic {
			first, last := d.First(), d.Last()
			if first != 0 && min > first && max < last {
				return fmt.Errorf("monotonic log store: cannot delete from the middle [%d,%d] of [%d,%d]", min, max, first, last)
			}
		}
		for i := range d.Logs {
			if i >= min && i <= max {
				delete(d.Logs, i)
			}
		}
		return nil
	})
}

type monotonicLogStore struct{ logStore }

func (s *monotonicLogStore) IsMonotonic() bool { return true }

type commitTrackingLogStore struct{ logStore }

func (s *commitTrackingLogStore) StageCommitIndex(idx uint64) error {
	if s.in.Srv.Disk.Flavour == CommitTrackingEager {
		return s.in.durable(&DiskOp{Kind: OpStage, Min: idx}, func(d *Disk) error {
			d.Staged, d.Commit = idx, idx
			return nil
		})
	}
	s.in.W.Mu.Lock()
	defer s.in.W.Mu.Unlock()
	s.in.disk.Staged = idx
	return nil
}

func (s *commitTrackingLogStore) GetCommitIndex() (uint64, error) {
	s.in.W.Mu.Lock()
	defer s.in.W.Mu.Unlock()
	c := s.in.disk.Commit
	if last := s.in.disk.Last(); c > last {
		c = last
	}
	return c, nil
}

// ---------------------------------------------------------------------------
// StableStore

type stableStore struct{ in *Instance }

func (s *stableStore) Set(key, val []byte) error {
	v := append([]byte(nil), val...)
	return s.in.durable(&DiskOp{Kind: OpSet, Key: string(key), Bytes: v}, func(d *Disk) error {
		d.KV[string(key)] = v
		return nil
	})
}

func (s *stableStore) Get(key []byte) ([]byte, error) {
	s.in.W.Mu.Lock()
	defer s.in.W.Mu.Unlock()
	if f := s.in.W.StableReadFault; f != nil && !s.in.dead && f(s.in, string(key)) {
		return nil, ErrInjected
	}
	v, ok := s.in.disk.KV[string(key)]
	if !ok || v == nil {
		return nil, errors.New("not found")
	}
	return append([]byte(nil), v...), nil
}

func (s *stableStore) SetUint64(key []byte, val uint64) error {
	return s.in.durable(&DiskOp{Kind: OpSetUint64, Key: string(key), Val: val}, func(d *Disk) error {
		d.KVInt[string(key)] = val
		return nil
	})
}

func (s *stableStore) GetUint64(key []byte) (uint64, error) {
	s.in.W.Mu.Lock()
	defer s.in.W.Mu.Unlock()
	if f := s.in.W.StableReadFault; f != nil && !s.in.dead && f(s.in, string(key)) {
		return 0, ErrInjected
	}
	return s.in.disk.KVInt[string(key)], nil
}

// ---------------------------------------------------------------------------
// SnapshotStore

type snapStore struct{ in *Instance }

type snapSink struct {
	st   *snapStore
	meta raft.SnapshotMeta
	buf  bytes.Buffer
	done bool
}

func (s *snapStore) Create(version raft.SnapshotVersion, index, term uint64, configuration raft.Configuration,
	configurationIndex uint64, trans raft.Transport) (raft.SnapshotSink, error) {
	if version != 1 {
		return nil, fmt.Errorf("unsupported snapshot version %d", version)
	}
	s.in.W.Mu.Lock()
	s.in.disk.snapSeq++
	seq := s.in.disk.snapSeq
	s.in.W.Mu.Unlock()
	return &snapSink{st: s, meta: raft.SnapshotMeta{Version: version, ID: fmt.Sprintf("%d-%d-%d", term, index, seq), Index: index, Term: term,
		Configuration: configuration.Clone(), ConfigurationIndex: configurationIndex}}, nil
}

func (k *snapSink) Write(p []byte) (int, error) { return k.buf.Write(p) }
func (k *snapSink) ID() string                  { return k.meta.ID }
func (k *snapSink) Cancel() error               { k.done = true; return nil }
func (k *snapSink) Close() error {
	if k.done {
		return nil
	}
	k.done = true
	data := append([]byte(nil), k.buf.Bytes()...)
	k.meta.Size = int64(len(data))
	var seq int
	fmt.Sscanf(k.meta.ID[strings.LastIndex(k.meta.ID, "-")+1:], "%d", &seq)
	sn := &Snap{Meta: k.meta, Data: data, Seq: seq}
	return k.st.in.durable(&DiskOp{Kind: OpSnapClose, Snap: sn}, func(d *Disk) error {
		d.Snaps = append(d.Snaps, sn)
		// reap: keep the Retain newest
		if len(d.Snaps) > d.Retain {
			sort.SliceStable(d.Snaps, func(i, j int) bool { return snapLess(d.Snaps[j], d.Snaps[i]) })
			d.Snaps = d.Snaps[:d.Retain]
		}
		return nil
	})
}

func (s *snapStore) List() ([]*raft.SnapshotMeta, error) {
	s.in.W.Mu.Lock()
	defer s.in.W.Mu.Unlock()
	sn := append([]*Snap(nil), s.in.disk.Snaps...)
	sort.SliceStable(sn, func(i, j int) bool { return snapLess(sn[j], sn[i]) })
	out := make([]*raft.SnapshotMeta, 0, len(sn))
	for _, x := range sn {
		m := x.Meta
		m.Configuration = m.Configuration.Clone()
		out = append(out, &m)
	}
	return out, nil
}

func (s *snapStore) Open(id string) (*raft.SnapshotMeta, io.ReadCloser, error) {
	s.in.W.Mu.Lock()
	defer s.in.W.Mu.Unlock()
	for _, x := range s.in.disk.Snaps {
		if x.Meta.ID == id {
			if x.Bad {
				return nil, nil, fmt.Errorf("snapshot %s unreadable", id)
			}
			if x.BadOnce {
				x.BadOnce = false
				return nil, nil, fmt.Errorf("snapshot %s: read error", id)
			}
			m := x.Meta
			m.Configuration = m.Configuration.Clone()
			return &m, io.NopCloser(bytes.NewReader(append([]byte(nil), x.Data...))), nil
		}
	}
	return nil, nil, fmt.Errorf("snapshot %s not found", id)
}
