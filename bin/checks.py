# Static description of every check: which test functions decide which property,
# budgets per tier, and the texts that go to MANIFEST.json / evidence.
#
# part fields:
#   pkg     harness package (unit | solo | cluster)
#   test    Go test function
#   kind    "rapid"  -> -rapid.checks=<n per shard> -rapid.seed=<derived>
#           "enum"   -> deterministic enumeration sharded by VERIF_SHARD/VERIF_SHARDS
#           "native" -> go native fuzzing (thorough only), -fuzztime
#   q / t   (shards, cases-per-shard) for quick / thorough; None = not run in that tier
#   procs   GOMAXPROCS for the shard (default 1)

PARTS = {
    "C19": [
        dict(pkg="unit", test="TestC19Exhaustive", kind="enum", q=(13, 0), t=(26, 0)),
        dict(pkg="unit", test="TestC19Random", kind="rapid", q=(4, 10000), t=(16, 250000)),
    ],
}

META = {
    "C19": dict(
        level="exploration",
        technique="differential property-based testing (rapid) + small-scope exhaustive enumeration against a reference LogStore",
        rule="exhaustive: every sequence of <= depth operations from a 26-letter alphabet (single/batch/gapped StoreLogs with two entry variants, every DeleteRange over indexes 1..4 incl. an inverted one, injected store/delete/get backend errors) x cache capacities 1..3; random: rapid-generated sequences of <= 40 operations over indexes 1..14, batches 1..4 with gaps and in-batch rewrites, capacities 1..5, 10% injected backend errors. After every operation FirstIndex/LastIndex/GetLog(all indexes) of the LogCache are compared with a bare copy of the backend. Non-trivial = the sequence rewrites an index after a DeleteRange covering it, or two different indexes share a ring slot (wrap-around); distinct = distinct operation sequences.",
        text="Generated-input differential check of LogCache against the bare backend; exhaustive for short sequences on a small index range, random for longer ones. Search, not proof.",
        note="Trusts the 60-line reference store (gap-tolerant semantics of InmemStore/BoltDB) and that raft never mutates a *Log after StoreLogs (cache keeps the caller's pointer). Concurrency between readers and writers is not explored.",
        assumptions=["reference backend is gap-tolerant and atomic per StoreLogs call", "log indexes >= 1 (index 0 is never stored by raft)", "callers do not mutate a Log after passing it to StoreLogs"],
        design_ref="DESIGN.md section 4, C19",
    ),
}

HOOK_COMMITS = ["475c77b"]
NOT_APPLICABLE = {}
